(* Cond/Totals.v — the bundle-level totals of an accepted spend loop as pure functions of the
   parsed bundle: amounts, reserved fee, absolute locks. *)
From ChiaV.Base Require Import Bytes.
From ChiaV.Clvm Require Import Sexp Ints.
From ChiaV.Gen Require Import Opcodes Ladders.
From ChiaV.Cond Require Import Model Invariants Syntax Collect Guards Accept.
From Coq Require Import ZifyBool ZifyNat ZifyN.
Open Scope N_scope.

(* ---------- absolute locks ---------- *)
Record bcore := { h_ha : N; h_sa : N; h_bha : option N; h_bsa : option N }.
Definition bcore_of (st : lstate) : bcore :=
  {| h_ha := b_height_absolute (l_ret st); h_sa := b_seconds_absolute (l_ret st);
     h_bha := b_before_height_absolute (l_ret st); h_bsa := b_before_seconds_absolute (l_ret st) |}.
Definition beffect (b : bcore) (c : condition) : bcore :=
  match c with
  | CAssertHeightAbsolute h => {| h_ha := N.max (h_ha b) h; h_sa := h_sa b; h_bha := h_bha b; h_bsa := h_bsa b |}
  | CAssertSecondsAbsolute s => {| h_ha := h_ha b; h_sa := N.max (h_sa b) s; h_bha := h_bha b; h_bsa := h_bsa b |}
  | CAssertBeforeHeightAbsolute h => {| h_ha := h_ha b; h_sa := h_sa b; h_bha := omin (h_bha b) h; h_bsa := h_bsa b |}
  | CAssertBeforeSecondsAbsolute s => {| h_ha := h_ha b; h_sa := h_sa b; h_bha := h_bha b; h_bsa := omin (h_bsa b) s |}
  | _ => b
  end.

Lemma bcore_eta b : {| h_ha := h_ha b; h_sa := h_sa b; h_bha := h_bha b; h_bsa := h_bsa b |} = b.
Proof. destruct b; reflexivity. Qed.

Lemma charge_b st c st' : charge st c = Ok st' -> bcore_of st' = bcore_of st.
Proof. unfold charge. intros H. break. reflexivity. Qed.
Lemma precharge_b fl st op st' : precharge fl st op = Ok st' -> bcore_of st' = bcore_of st.
Proof.
  unfold precharge. intros H.
  repeat match goal with H : (if ?c then _ else _) = Ok _ |- _ => destruct c end;
    try (apply charge_b in H; exact H); inversion H; reflexivity.
Qed.
Lemma visit_b V st cva : bcore_of (visit V st cva) = bcore_of st.
Proof. unfold visit. destruct V; [reflexivity|]. destruct (mempool_condition _ _ _ _). reflexivity. Qed.

Lemma apply_condition_b vk K fl st cva st' :
  apply_condition vk K fl st cva = Ok st' -> bcore_of st' = beffect (bcore_of st) cva.
Proof.
  intros H.
  destruct cva; cbn [apply_condition beffect] in H |- *;
    try (apply charge_b in H; exact H);
    try (unfold mark_not_ephemeral, push_pair in H;
         cbn [l_spend l_state l_ret with_spend with_ret with_state sp_has_relative sp_set_locks sp_set_lists sp_set_flags] in H;
         split_in H; try discriminate H; inversion H; subst; unfold bcore_of; cbn; rewrite ?bcore_eta; reflexivity);
    try (destruct (decrement fl st) as [st1|] eqn:Ed; cbn [bind] in H; [|discriminate H];
         destruct (decrement_fields _ _ _ Ed) as [F1 [F2 F3]];
         try (match type of H with bind ?r _ = _ => destruct r; cbn [bind] in H; [|discriminate H] end);
         inversion H; subst; unfold bcore_of; cbn; rewrite ?F1, ?F2, ?F3; reflexivity).
Qed.

Lemma sem_step_b vk K fl V st p st' :
  sem_step vk K fl V st p = Ok st' ->
  bcore_of st' = match p with Some (_, c) => beffect (bcore_of st) c | None => bcore_of st end.
Proof.
  destruct p as [[op c]|]; cbn [sem_step]; intros H.
  - destruct (precharge fl st op) as [st1|] eqn:E; cbn [bind] in H; [|discriminate].
    apply apply_condition_b in H. rewrite visit_b in H. apply precharge_b in E. now rewrite E in H.
  - destruct (f_cost_conds fl); [now apply charge_b in H|now inversion H].
Qed.

Lemma sem_fold_b vk K fl V l : forall st st',
  sem_fold vk K fl V st l = Ok st' -> bcore_of st' = fold_left beffect (known l) (bcore_of st).
Proof.
  induction l as [|p l IH]; intros st st' H; cbn [sem_fold] in H.
  - inversion H; reflexivity.
  - destruct (sem_step vk K fl V st p) as [st1|] eqn:E; cbn [bind] in H; [|discriminate].
    apply IH in H. apply sem_step_b in E. rewrite H, E.
    unfold known. cbn [flat_map]. destruct p as [[op c]|]; reflexivity.
Qed.

Definition c_ha (c : condition) := match c with CAssertHeightAbsolute h => [h] | _ => [] end.
Definition c_sa (c : condition) := match c with CAssertSecondsAbsolute h => [h] | _ => [] end.
Definition c_bha (c : condition) := match c with CAssertBeforeHeightAbsolute h => [h] | _ => [] end.
Definition c_bsa (c : condition) := match c with CAssertBeforeSecondsAbsolute h => [h] | _ => [] end.

Lemma fold_beffect l : forall b,
  fold_left beffect l b =
  {| h_ha := fold_left N.max (flat_map c_ha l) (h_ha b); h_sa := fold_left N.max (flat_map c_sa l) (h_sa b);
     h_bha := fold_left omin (flat_map c_bha l) (h_bha b); h_bsa := fold_left omin (flat_map c_bsa l) (h_bsa b) |}.
Proof.
  induction l as [|c l IH]; intros b; cbn [fold_left flat_map].
  - symmetry. apply bcore_eta.
  - rewrite IH. destruct c; cbn [beffect c_ha c_sa c_bha c_bsa app fold_left h_ha h_sa h_bha h_bsa]; reflexivity.
Qed.

(* the meaning of the folds *)
Lemma fold_max_lt l : forall x v, fold_left N.max l x < v <-> x < v /\ forall a, In a l -> a < v.
Proof.
  induction l as [|y l IH]; intros x v; cbn [fold_left In].
  - split; [intros Hx; split; [exact Hx|intros a []]|tauto].
  - rewrite IH. split.
    + intros [Hm Hall]. split; [lia|]. intros a [<-|Ha]; [lia|now apply Hall].
    + intros [Hx Hall]. split; [assert (y < v) by (apply Hall; now left); lia|]. intros a Ha. apply Hall. now right.
Qed.

Lemma fold_omin_gt l : forall o x,
  match fold_left omin l o with Some m => x < m | None => True end <->
  match o with Some m => x < m | None => True end /\ forall b, In b l -> x < b.
Proof.
  induction l as [|y l IH]; intros o x; cbn [fold_left In].
  - split; [intros Hx; split; [exact Hx|intros b []]|tauto].
  - rewrite IH. destruct o as [m|]; cbn [omin].
    + split.
      * intros [Hm Hall]. split; [lia|]. intros b [<-|Hb]; [lia|now apply Hall].
      * intros [Hx Hall]. split; [assert (x < y) by (apply Hall; now left); lia|]. intros b Hb. apply Hall. now right.
    + split.
      * intros [Hm Hall]. split; [exact I|]. intros b [<-|Hb]; [exact Hm|now apply Hall].
      * intros [_ Hall]. split; [apply Hall; now left|]. intros b Hb. apply Hall. now right.
Qed.

(* ---------- the spend loop ---------- *)
Section T.
  Variable vk : bytes -> bool.
  Variable H : bytes -> bytes.
  Variable K : consts.
  Variable fl : cflags.
  Variable V : visitor.

  Lemma sem_step_cstep st p st' : sem_step vk K fl V st p = Ok st' -> cstep (core_of st) (core_of st').
  Proof.
    destruct p as [[op c]|]; cbn [sem_step]; intros Hs.
    - destruct (precharge fl st op) as [st1|] eqn:E; cbn [bind] in Hs; [|discriminate].
      apply apply_condition_cstep in Hs. rewrite visit_core in Hs. apply precharge_core in E. now rewrite E in Hs.
    - left. destruct (f_cost_conds fl); [now apply charge_core in Hs|now inversion Hs].
  Qed.

  Lemma sem_fold_inv l : forall st st' rem0 add0 k0,
    sem_fold vk K fl V st l = Ok st' -> KInv rem0 add0 k0 (core_of st) -> KInv rem0 add0 k0 (core_of st').
  Proof.
    induction l as [|p l IH]; intros st st' rem0 add0 k0 Hs I; cbn [sem_fold] in Hs.
    - now inversion Hs; subst.
    - destruct (sem_step vk K fl V st p) as [st1|] eqn:E; cbn [bind] in Hs; [|discriminate].
      eapply IH; [exact Hs|]. eapply cstep_inv; [exact I|]. eapply sem_step_cstep; exact E.
  Qed.

  Definition created_amount (p : pspend) : N := sumN (map nc_amount (flat_map c_created (kn p))).

  Lemma spend_sem_totals ret state mc cc p ret2 state2 mc2 :
    spend_sem vk H K fl V ret state mc cc p = Ok (ret2, state2, mc2) ->
    b_removal ret2 = b_removal ret + ps_amount p /\
    b_addition ret2 = b_addition ret + created_amount p /\
    bcore_of {| l_ret := ret2; l_state := state2; l_spend := new_spend [] 0 [] [] 0; l_max_cost := 0; l_countdown := 0; l_counter := 0 |} =
      fold_left beffect (kn p)
        (bcore_of {| l_ret := ret; l_state := state; l_spend := new_spend [] 0 [] [] 0; l_max_cost := 0; l_countdown := 0; l_counter := 0 |}).
  Proof.
    intros Hs. pose proof Hs as Hs'. apply spend_sem_inv in Hs. destruct Hs as [_ [st1 [st2 [E1 [E2 Ex]]]]].
    unfold st_finish in Ex. inversion Ex; subst ret2 state2 mc2; clear Ex. cbn [b_with b_removal b_addition].
    assert (C1 : core_of st1 = core_of (st_init H ret state mc cc p)).
    { destruct (f_cost_conds fl); [now apply charge_core in E1|now inversion E1]. }
    assert (B1 : bcore_of st1 = bcore_of (st_init H ret state mc cc p)).
    { destruct (f_cost_conds fl); [now apply charge_b in E1|now inversion E1]. }
    assert (CA : core_of (st_visit V p st1) = core_of (st_init H ret state mc cc p)).
    { rewrite <- C1. unfold st_visit. destruct V; reflexivity. }
    assert (KI : KInv (b_removal ret + ps_amount p) (b_addition ret) (core_of (st_init H ret state mc cc p)) (core_of (st_visit V p st1))).
    { rewrite CA. constructor; try reflexivity; [cbn; lia|cbn; constructor]. }
    pose proof (sem_fold_inv _ _ _ _ _ _ E2 KI) as [Krem Kadd _ _ _ _ _ _ _].
    cbn [core_of k_rem k_add k_cc st_init l_ret b_with b_removal b_addition] in Krem, Kadd.
    destruct (spend_sem_collect _ _ _ _ _ _ _ _ _ _ _ _ _ Hs') as [st2' [_ [Eret [Est G]]]].
    (* st2' is st2: both come from the same computation; we only need g_cc, read from G through l_state/l_ret equalities *)
    split; [exact Krem|]. split.
    - rewrite Kadd. f_equal. unfold created_amount.
      (* the created coins of the finished spend *)
      pose proof (sem_fold_g vk K fl V _ _ _ E2) as G2. rewrite fold_geffect_collected in G2.
      apply (f_equal g_cc) in G2. unfold collected, gcore_of in G2. cbn [g_cc] in G2.
      assert (Hcc0 : sp_create_coin (l_spend (st_visit V p st1)) = []).
      { assert (X : k_cc (core_of (st_visit V p st1)) = k_cc (core_of (st_init H ret state mc cc p))) by (now rewrite CA).
        exact X. }
      rewrite Hcc0 in G2. cbn [app] in G2. rewrite G2. reflexivity.
    - apply sem_fold_b in E2.
      assert (BA : bcore_of (st_visit V p st1) = bcore_of st1) by (unfold st_visit; destruct V; reflexivity).
      rewrite BA, B1 in E2. unfold bcore_of in *. cbn [l_ret b_with b_height_absolute b_seconds_absolute
        b_before_height_absolute b_before_seconds_absolute st_init] in *. exact E2.
  Qed.
End T.

Definition bret (ret : bundle) : bcore :=
  {| h_ha := b_height_absolute ret; h_sa := b_seconds_absolute ret;
     h_bha := b_before_height_absolute ret; h_bsa := b_before_seconds_absolute ret |}.

Definition c_fee (c : condition) := match c with CReserveFee v => [v] | _ => [] end.

Lemma known_cons p l : known (p :: l) = match p with Some (_, c) => [c] | None => [] end ++ known l.
Proof. reflexivity. Qed.

Lemma a_fee_fold fl l : forall a,
  a_fee (fold_left (peffect fl) l a) = a_fee a + sumN (flat_map c_fee (known l)).
Proof.
  induction l as [|p l IH]; intros a; cbn [fold_left].
  - cbn. lia.
  - rewrite IH, known_cons, flat_map_app, sumN_app. destruct p as [[op c]|]; cbn [peffect].
    + assert (Hf : a_fee (aeffect fl (spend_budget a (pcost fl op)) c) = a_fee a + sumN (c_fee c)).
      { destruct c; cbn [aeffect announce_class]; try (cbn; lia);
          try (destruct (f_cost_conds fl); cbn; lia). }
      rewrite Hf. cbn [flat_map app]. rewrite app_nil_r. lia.
    + cbn [flat_map spend_budget a_with a_fee sumN fold_right]. lia.
Qed.

Section T2.
  Variable vk : bytes -> bool.
  Variable H : bytes -> bytes.
  Variable K : consts.
  Variable fl : cflags.
  Variable V : visitor.

  Lemma spends_sem_totals ps : forall ret state cl sl cc ret' state' cl',
    spends_sem vk H K fl V ps ret state cl sl cc = Ok (ret', state', cl') ->
    b_removal ret' = b_removal ret + sumN (map ps_amount ps) /\
    b_addition ret' = b_addition ret + sumN (map created_amount ps) /\
    b_reserve_fee ret' = b_reserve_fee ret + sumN (flat_map (fun p => flat_map c_fee (kn p)) ps) /\
    bret ret' = fold_left beffect (flat_map kn ps) (bret ret).
  Proof.
    induction ps as [|p ps IH]; intros ret state cl sl cc ret' state' cl' Hs; cbn [spends_sem] in Hs.
    - inversion Hs; subst. cbn. repeat split; lia.
    - assert (Hgo : (r <- spend_sem vk H K fl V ret state cl cc p ;;
                     let '(ret1, state1, cost1) := r in
                     spends_sem vk H K fl V ps ret1 state1 cost1 (option_map N.pred sl) cc) = Ok (ret', state', cl')).
      { destruct sl as [[|q]|]; [discriminate|exact Hs|exact Hs]. }
      destruct (spend_sem vk H K fl V ret state cl cc p) as [[[ret1 state1] cost1]|] eqn:E; cbn [bind] in Hgo; [|discriminate].
      destruct (IH _ _ _ _ _ _ _ _ Hgo) as [I1 [I2 [I3 I4]]].
      destruct (spend_sem_totals vk H K fl V _ _ _ _ _ _ _ _ E) as [T1 [T2 T3]].
      destruct (spend_sem_next vk H K fl V _ _ _ _ _ _ _ _ E) as [_ [N2 _]].
      unfold acoreF in N2. rewrite a_fee_fold in N2. cbn [acore0 a_fee] in N2.
      cbn [map flat_map]. rewrite !sumN_app. cbn [sumN fold_right].
      repeat split; try (unfold sumN in *; lia).
      + rewrite I3, N2. unfold kn, sumN. lia.
      + rewrite I4, fold_left_app. f_equal. exact T3.
  Qed.
End T2.
