(* Cond/Rules.v — the deferred (bundle-level) validation stated declaratively over the parsed
   bundle: cross-spend assertions pass exactly when a matching counterpart exists. *)
From ChiaV.Base Require Import Bytes.
From ChiaV.Clvm Require Import Sexp Ints.
From ChiaV.Gen Require Import Opcodes Ladders.
From ChiaV.Cond Require Import Model Invariants Syntax Collect.
From Coq Require Import ZifyBool ZifyNat ZifyN.
Open Scope N_scope.

Lemma mem_bytes_In x l : mem_bytes x l = true <-> In x l.
Proof.
  induction l as [|y l IH]; cbn [mem_bytes In]; [split; [discriminate|tauto]|].
  destruct (bytes_eqb_spec x y) as [->|Hne]; cbn [orb].
  - split; [intros _; now left|reflexivity].
  - rewrite IH. split; [intros Hi; now right|intros [E|Hi]; [congruence|exact Hi]].
Qed.

Lemma lookup_idx_Some x l : (exists i, lookup_idx x l = Some i) <-> In x (map fst l).
Proof.
  induction l as [|[k i] l IH]; cbn [lookup_idx map fst In].
  - split; [intros [i Hx]; discriminate|tauto].
  - destruct (bytes_eqb_spec x k) as [->|Hne].
    + split; [intros _; now left|intros _; now exists i].
    + rewrite IH. split; [intros Hi; now right|intros [E|Hi]; [congruence|exact Hi]].
Qed.

Lemma forallb_In {A} (f : A -> bool) l : forallb f l = true <-> forall x, In x l -> f x = true.
Proof. apply forallb_forall. Qed.

(* membership in the collected lists *)
Lemma in_rev_flat_map {A B} (f : A -> list B) l y : In y (rev (flat_map f l)) <-> exists x, In x l /\ In y (f x).
Proof. rewrite <- in_rev. apply in_flat_map. Qed.

Lemma in_kn_contrib {B} (c2l : condition -> list B) (l : list condition) y :
  In y (flat_map c2l l) <-> exists c, In c l /\ In y (c2l c).
Proof. apply in_flat_map. Qed.

Section R.
  Variable H : bytes -> bytes.

  Notation pid := (pid H).

  (* the bundle-level clauses that do not involve indices *)
  Definition conc_spend_ok (ps : list pspend) : Prop :=
    forall p id, In p ps -> In (CAssertConcurrentSpend id) (kn p) -> exists q, In q ps /\ pid q = id.
  Definition conc_puzzle_ok (ps : list pspend) : Prop :=
    forall p id, In p ps -> In (CAssertConcurrentPuzzle id) (kn p) -> exists q, In q ps /\ ps_ph q = id.
  Definition ann_coin_ok (ps : list pspend) : Prop :=
    forall p id, In p ps -> In (CAssertCoinAnnouncement id) (kn p) ->
      exists q msg, In q ps /\ In (CCreateCoinAnnouncement msg) (kn q) /\ id = H (pid q ++ msg).
  Definition ann_puzzle_ok (ps : list pspend) : Prop :=
    forall p id, In p ps -> In (CAssertPuzzleAnnouncement id) (kn p) ->
      exists q msg, In q ps /\ In (CCreatePuzzleAnnouncement msg) (kn q) /\ id = H (ps_ph q ++ msg).

  Lemma c_assert_coin_in c i : In i (c_assert_coin c) <-> c = CAssertCoinAnnouncement i.
  Proof. destruct c; cbn; split; try tauto; try discriminate; intros [E|[]] || intros E; congruence || (inversion E; now left). Qed.
  Lemma c_assert_puzzle_in c i : In i (c_assert_puzzle c) <-> c = CAssertPuzzleAnnouncement i.
  Proof. destruct c; cbn; split; try tauto; try discriminate; intros [E|[]] || intros E; congruence || (inversion E; now left). Qed.
  Lemma c_conc_spend_in c i : In i (c_conc_spend c) <-> c = CAssertConcurrentSpend i.
  Proof. destruct c; cbn; split; try tauto; try discriminate; intros [E|[]] || intros E; congruence || (inversion E; now left). Qed.
  Lemma c_conc_puzzle_in c i : In i (c_conc_puzzle c) <-> c = CAssertConcurrentPuzzle i.
  Proof. destruct c; cbn; split; try tauto; try discriminate; intros [E|[]] || intros E; congruence || (inversion E; now left). Qed.
  Lemma c_ann_coin_in id c x : In x (c_ann_coin id c) <-> exists m, c = CCreateCoinAnnouncement m /\ x = (id, m).
  Proof.
    destruct c; cbn; split; try tauto; try (intros [m [E _]]; discriminate).
    - intros [E|[]]. exists msg. split; congruence.
    - intros [m [E ->]]. inversion E. now left.
  Qed.
  Lemma c_ann_puzzle_in ph c x : In x (c_ann_puzzle ph c) <-> exists m, c = CCreatePuzzleAnnouncement m /\ x = (ph, m).
  Proof.
    destruct c; cbn; split; try tauto; try (intros [m [E _]]; discriminate).
    - intros [E|[]]. exists msg. split; congruence.
    - intros [m [E ->]]. inversion E. now left.
  Qed.

  Section WithColl.
    Variables (ps : list pspend) (ret : bundle) (state : pstate).
    Hypothesis C : Coll H ps ret state.

    Lemma conc_spend_iff :
      forallb (fun id => match lookup_idx id (s_spent_coins state) with Some _ => true | None => false end)
              (s_assert_concurrent_spend state) = true <-> conc_spend_ok ps.
    Proof.
      rewrite forallb_In. destruct C as [_ _ _ _ _ C5 _ _ _ C9 _ _]. rewrite C5, C9. unfold conc_spend_ok. split.
      - intros Hall p id Hp Hc.
        assert (Hin : In id (rev (flat_map (fun p => flat_map c_conc_spend (kn p)) ps))).
        { apply in_rev_flat_map. exists p. split; [exact Hp|]. apply in_flat_map. exists (CAssertConcurrentSpend id).
          split; [exact Hc|now left]. }
        specialize (Hall id Hin).
        destruct (lookup_idx id _) as [j|] eqn:El; [|discriminate].
        assert (Hm : In id (map fst (rev (map (fun ip => (pid (snd ip), fst ip)) (enum ps))))) by (apply lookup_idx_Some; now exists j).
        apply in_map_iff in Hm. destruct Hm as [[k i] [Hk Hi]]. cbn [fst] in Hk. subst k.
        apply in_rev in Hi. apply in_map_iff in Hi. destruct Hi as [[i' q] [Hq Hiq]]. cbn [fst snd] in Hq. inversion Hq; subst.
        exists q. split; [|reflexivity]. unfold enum in Hiq. now apply in_combine_r in Hiq.
      - intros Hok id Hin. apply in_rev_flat_map in Hin. destruct Hin as [p [Hp Hc]].
        apply in_flat_map in Hc. destruct Hc as [c [Hc Hi]]. apply c_conc_spend_in in Hi. subst c.
        destruct (Hok p id Hp Hc) as [q [Hq Hid]].
        assert (Hex : exists i, lookup_idx id (rev (map (fun ip => (pid (snd ip), fst ip)) (enum ps))) = Some i).
        { apply lookup_idx_Some. apply in_map_iff.
          apply In_nth_error in Hq. destruct Hq as [n Hn].
          exists (id, n). split; [reflexivity|]. apply -> in_rev. apply in_map_iff. exists (n, q). split; [cbn; now rewrite Hid|].
          unfold enum. apply nth_error_In with n.
          assert (Hlt : (n < length ps)%nat) by (apply nth_error_Some; congruence).
          rewrite (nth_error_nth' _ (0%nat, q)) by (rewrite combine_length, seq_length; lia).
          rewrite combine_nth by (now rewrite seq_length). rewrite seq_nth by exact Hlt.
          f_equal. f_equal. apply nth_error_nth. exact Hn. }
        destruct Hex as [i ->]. reflexivity.
    Qed.

    Lemma conc_puzzle_iff :
      forallb (fun ph => mem_bytes ph (s_spent_puzzles state)) (s_assert_concurrent_puzzle state) = true <-> conc_puzzle_ok ps.
    Proof.
      rewrite forallb_In. destruct C as [_ _ _ _ _ _ C6 _ _ _ C10 _]. rewrite C6, C10. unfold conc_puzzle_ok. split.
      - intros Hall p id Hp Hc.
        assert (Hin : In id (rev (flat_map (fun p => flat_map c_conc_puzzle (kn p)) ps))).
        { apply in_rev_flat_map. exists p. split; [exact Hp|]. apply in_flat_map. exists (CAssertConcurrentPuzzle id).
          split; [exact Hc|now left]. }
        specialize (Hall id Hin). apply mem_bytes_In in Hall. apply in_rev in Hall. apply in_map_iff in Hall.
        destruct Hall as [q [Hq Hi]]. exists q. split; assumption.
      - intros Hok id Hin. apply in_rev_flat_map in Hin. destruct Hin as [p [Hp Hc]].
        apply in_flat_map in Hc. destruct Hc as [c [Hc Hi]]. apply c_conc_puzzle_in in Hi. subst c.
        destruct (Hok p id Hp Hc) as [q [Hq Hid]].
        apply mem_bytes_In. apply -> in_rev. apply in_map_iff. exists q. split; assumption.
    Qed.

    Lemma ann_coin_iff :
      forallb (fun a => mem_bytes a (map (fun cm => H (fst cm ++ snd cm)) (s_announce_coin state))) (s_assert_coin state) = true
      <-> ann_coin_ok ps.
    Proof.
      rewrite forallb_In. destruct C as [_ C1 _ C3 _ _ _ _ _ _ _ _]. rewrite C1, C3. unfold ann_coin_ok. split.
      - intros Hall p id Hp Hc.
        assert (Hin : In id (rev (flat_map (fun p => flat_map c_assert_coin (kn p)) ps))).
        { apply in_rev_flat_map. exists p. split; [exact Hp|]. apply in_flat_map. exists (CAssertCoinAnnouncement id).
          split; [exact Hc|now left]. }
        specialize (Hall id Hin). apply mem_bytes_In in Hall. apply in_map_iff in Hall.
        destruct Hall as [[cid msg] [Hh Hi]]. cbn [fst snd] in Hh.
        apply in_rev_flat_map in Hi. destruct Hi as [q [Hq Hi]]. apply in_flat_map in Hi. destruct Hi as [c [Hcq Hi]].
        apply c_ann_coin_in in Hi. destruct Hi as [m [-> E]]. inversion E; subst.
        exists q, m. repeat split; assumption || reflexivity.
      - intros Hok id Hin. apply in_rev_flat_map in Hin. destruct Hin as [p [Hp Hc]].
        apply in_flat_map in Hc. destruct Hc as [c [Hc Hi]]. apply c_assert_coin_in in Hi. subst c.
        destruct (Hok p id Hp Hc) as [q [msg [Hq [Hcq ->]]]].
        apply mem_bytes_In. apply in_map_iff. exists (pid q, msg). split; [reflexivity|].
        apply in_rev_flat_map. exists q. split; [exact Hq|]. apply in_flat_map.
        exists (CCreateCoinAnnouncement msg). split; [exact Hcq|now left].
    Qed.

    Lemma ann_puzzle_iff :
      forallb (fun a => mem_bytes a (map (fun pm => H (fst pm ++ snd pm)) (s_announce_puzzle state))) (s_assert_puzzle state) = true
      <-> ann_puzzle_ok ps.
    Proof.
      rewrite forallb_In. destruct C as [_ _ C2 _ C4 _ _ _ _ _ _ _]. rewrite C2, C4. unfold ann_puzzle_ok. split.
      - intros Hall p id Hp Hc.
        assert (Hin : In id (rev (flat_map (fun p => flat_map c_assert_puzzle (kn p)) ps))).
        { apply in_rev_flat_map. exists p. split; [exact Hp|]. apply in_flat_map. exists (CAssertPuzzleAnnouncement id).
          split; [exact Hc|now left]. }
        specialize (Hall id Hin). apply mem_bytes_In in Hall. apply in_map_iff in Hall.
        destruct Hall as [[ph msg] [Hh Hi]]. cbn [fst snd] in Hh.
        apply in_rev_flat_map in Hi. destruct Hi as [q [Hq Hi]]. apply in_flat_map in Hi. destruct Hi as [c [Hcq Hi]].
        apply c_ann_puzzle_in in Hi. destruct Hi as [m [-> E]]. inversion E; subst.
        exists q, m. repeat split; assumption || reflexivity.
      - intros Hok id Hin. apply in_rev_flat_map in Hin. destruct Hin as [p [Hp Hc]].
        apply in_flat_map in Hc. destruct Hc as [c [Hc Hi]]. apply c_assert_puzzle_in in Hi. subst c.
        destruct (Hok p id Hp Hc) as [q [msg [Hq [Hcq ->]]]].
        apply mem_bytes_In. apply in_map_iff. exists (ps_ph q, msg). split; [reflexivity|].
        apply in_rev_flat_map. exists q. split; [exact Hq|]. apply in_flat_map.
        exists (CCreatePuzzleAnnouncement msg). split; [exact Hcq|now left].
    Qed.
  End WithColl.
End R.

(* ---------- messages: every key is sent exactly as often as it is received ---------- *)
Definition kget (k : bytes) (l : list (bytes * Z)) : Z :=
  fold_right (fun kv s => if bytes_eqb (fst kv) k then (snd kv + s)%Z else s) 0%Z l.

Definition balance (msgs : list message) (k : bytes) : Z :=
  fold_right (fun m s => if bytes_eqb (message_key m) k then (m_counter m + s)%Z else s) 0%Z msgs.

Lemma add_count_kget k k' d l : kget k (add_count k' d l) = (kget k l + (if bytes_eqb k' k then d else 0))%Z.
Proof.
  induction l as [|[k0 v] l IH]; cbn [add_count kget fold_right fst snd].
  - destruct (bytes_eqb k' k); lia.
  - destruct (bytes_eqb_spec k' k0) as [->|Hne]; cbn [kget fold_right fst snd].
    + destruct (bytes_eqb k0 k); lia.
    + fold (kget k (add_count k' d l)). rewrite IH. fold (kget k l).
      destruct (bytes_eqb k0 k); destruct (bytes_eqb k' k); lia.
Qed.

Lemma add_count_keys k d l : NoDup (map fst l) -> NoDup (map fst (add_count k d l)) /\
  (forall x, In x (map fst (add_count k d l)) <-> x = k \/ In x (map fst l)).
Proof.
  induction l as [|[k0 v] l IH]; intros Hn; cbn [add_count map fst].
  - split; [constructor; [intros []|constructor]|]. intros x. cbn. intuition congruence.
  - inversion Hn as [|? ? Hnot Hn']; subst.
    destruct (bytes_eqb_spec k k0) as [->|Hne]; cbn [map fst].
    + split; [exact Hn|]. intros x. cbn [In]. intuition congruence.
    + destruct (IH Hn') as [I1 I2]. split.
      * constructor; [|exact I1]. intros Hin. apply I2 in Hin. destruct Hin as [->|Hin]; [congruence|contradiction].
      * intros x. cbn [In]. rewrite I2. intuition congruence.
Qed.

Lemma fold_counts msgs : forall acc, NoDup (map fst acc) ->
  let r := fold_left (fun acc m => add_count (message_key m) (m_counter m) acc) msgs acc in
  NoDup (map fst r) /\ (forall k, kget k r = (kget k acc + balance msgs k)%Z) /\
  (forall x, In x (map fst r) -> In x (map fst acc) \/ exists m, In m msgs /\ message_key m = x).
Proof.
  induction msgs as [|m msgs IH]; intros acc Hn; cbn [fold_left].
  - split; [exact Hn|]. split; [intros k; cbn; lia|]. intros x Hx. now left.
  - destruct (add_count_keys (message_key m) (m_counter m) acc Hn) as [A1 A2].
    destruct (IH _ A1) as [I1 [I2 I3]]. split; [exact I1|]. split.
    + intros k. rewrite I2, add_count_kget. cbn [balance fold_right]. fold (balance msgs k).
      destruct (bytes_eqb (message_key m) k); lia.
    + intros x Hx. apply I3 in Hx. destruct Hx as [Hx|[m' [Hm' Hk]]].
      * apply A2 in Hx. destruct Hx as [->|Hx]; [right; exists m; split; [now left|reflexivity]|now left].
      * right. exists m'. split; [now right|exact Hk].
Qed.

Lemma forallb_zero_kget l : NoDup (map fst l) ->
  (forallb (fun kv => Z.eqb (snd kv) 0) l = true <-> forall k, In k (map fst l) -> kget k l = 0%Z).
Proof.
  induction l as [|[k0 v] l IH]; intros Hn; cbn [forallb map fst snd In].
  - split; [intros _ k []|reflexivity].
  - inversion Hn as [|? ? Hnot Hn']; subst. rewrite Bool.andb_true_iff, (IH Hn'). split.
    + intros [Hv Hall] k [->|Hin]; cbn [kget fold_right fst snd].
      * rewrite bytes_eqb_refl. fold (kget k l).
        assert (Hz : kget k l = 0%Z).
        { clear -Hnot. induction l as [|[k1 v1] l IH]; [reflexivity|]. cbn [kget fold_right fst snd map In] in *.
          destruct (bytes_eqb_spec k1 k) as [->|]; [exfalso; apply Hnot; now left|]. apply IH. tauto. }
        apply Z.eqb_eq in Hv. lia.
      * destruct (bytes_eqb_spec k0 k) as [->|]; [contradiction|]. now apply Hall.
    + intros Hall. split.
      * specialize (Hall k0 (or_introl eq_refl)). cbn [kget fold_right fst snd] in Hall. rewrite bytes_eqb_refl in Hall.
        fold (kget k0 l) in Hall.
        assert (Hz : kget k0 l = 0%Z).
        { clear -Hnot. induction l as [|[k1 v1] l IH]; [reflexivity|]. cbn [kget fold_right fst snd map In] in *.
          destruct (bytes_eqb_spec k1 k0) as [->|]; [exfalso; apply Hnot; now left|]. apply IH. tauto. }
        apply Z.eqb_eq. lia.
      * intros k Hin. specialize (Hall k (or_intror Hin)). cbn [kget fold_right fst snd] in Hall.
        destruct (bytes_eqb_spec k0 k) as [->|]; [contradiction|]. exact Hall.
Qed.

Lemma balance_absent msgs k : (forall m, In m msgs -> message_key m <> k) -> balance msgs k = 0%Z.
Proof.
  induction msgs as [|m msgs IH]; intros Hall; [reflexivity|]. cbn [balance fold_right]. fold (balance msgs k).
  destruct (bytes_eqb_spec (message_key m) k) as [E|_]; [exfalso; exact (Hall m (or_introl eq_refl) E)|].
  apply IH. intros m' Hm'. apply Hall. now right.
Qed.

Lemma messages_iff msgs :
  forallb (fun kv => Z.eqb (snd kv) 0)
          (fold_left (fun acc m => add_count (message_key m) (m_counter m) acc) msgs []) = true
  <-> forall k, balance msgs k = 0%Z.
Proof.
  destruct (fold_counts msgs [] (NoDup_nil _)) as [Hn [Hg Hk]]. cbn zeta in *.
  rewrite (forallb_zero_kget _ Hn). split.
  - intros Hall k.
    destruct (in_dec (list_eq_dec (fun a b => match byte_eqb_spec a b with ReflectT _ e => left e | ReflectF _ n => right n end)) k
                     (map fst (fold_left (fun acc m => add_count (message_key m) (m_counter m) acc) msgs []))) as [Hin|Hnin].
    + specialize (Hall k Hin). rewrite Hg in Hall. cbn in Hall. lia.
    + apply balance_absent. intros m Hm Hkey.
      (* a key that occurs among the messages is present in the table *)
      assert (Hpres : forall msgs acc x, (In x (map fst acc) \/ exists m, In m msgs /\ message_key m = x) ->
                In x (map fst (fold_left (fun acc m => add_count (message_key m) (m_counter m) acc) msgs acc))).
      { clear. induction msgs as [|m msgs IH]; intros acc x Hx; cbn [fold_left].
        - destruct Hx as [Hx|[m [[] _]]]. exact Hx.
        - apply IH. destruct Hx as [Hx|[m' [[<-|Hm'] Hk]]].
          + left. clear -Hx. induction acc as [|[k0 v] acc IHa]; [destruct Hx|]. cbn [add_count].
            destruct (bytes_eqb (message_key m) k0); cbn [map fst In] in *; [exact Hx|]. destruct Hx as [->|Hx]; [now left|right; now apply IHa].
          + left. subst x. clear. induction acc as [|[k0 v] acc IHa]; cbn [add_count]; [now left|].
            destruct (bytes_eqb_spec (message_key m) k0) as [->|]; cbn [map fst In]; [now left|right; exact IHa].
          + right. exists m'. split; assumption. }
      apply Hnin. apply Hpres. right. exists m. split; assumption.
  - intros Hall k _. rewrite Hg, Hall. reflexivity.
Qed.

Lemma balance_app a b k : balance (a ++ b) k = (balance a k + balance b k)%Z.
Proof.
  unfold balance. induction a as [|m a IH]; cbn [app fold_right]; [reflexivity|].
  rewrite IH. destruct (bytes_eqb (message_key m) k); lia.
Qed.

Lemma balance_rev l k : balance (rev l) k = balance l k.
Proof.
  induction l as [|m l IH]; [reflexivity|]. cbn [rev]. rewrite balance_app, IH. cbn [balance fold_right].
  fold (balance l k). destruct (bytes_eqb (message_key m) k); lia.
Qed.

(* ---------- ephemeral coins ---------- *)
Lemma combine_seq_in {A} (l : list A) : forall a i x,
  In (i, x) (combine (seq a (length l)) l) <-> (a <= i)%nat /\ nth_error l (i - a) = Some x.
Proof.
  induction l as [|y l IH]; intros a i x; cbn [length seq combine In].
  - split; [intros []|]. intros [_ Hn]. destruct (i - a)%nat; discriminate.
  - rewrite IH. split.
    + intros [E|[Hle Hn]].
      * inversion E; subst. split; [lia|]. now rewrite Nat.sub_diag.
      * split; [lia|]. replace (i - a)%nat with (S (i - S a)) by lia. exact Hn.
    + intros [Hle Hn]. destruct (Nat.eq_dec a i) as [->|Hne].
      * left. rewrite Nat.sub_diag in Hn. cbn in Hn. congruence.
      * right. split; [lia|]. replace (i - a)%nat with (S (i - S a)) in Hn by lia. exact Hn.
Qed.

Lemma enum_iff {A} (l : list A) i x : In (i, x) (enum l) <-> nth_error l i = Some x.
Proof. unfold enum. rewrite combine_seq_in, Nat.sub_0_r. split; [tauto|intros; split; [lia|assumption]]. Qed.

Lemma lookup_idx_In x l j : lookup_idx x l = Some j -> In (x, j) l.
Proof.
  induction l as [|[k i] l IH]; cbn [lookup_idx In]; [discriminate|].
  destruct (bytes_eqb_spec x k) as [->|Hne]; [intros [= ->]; now left|intros Hx; right; now apply IH].
Qed.

Lemma map_eq_nth {A B C} (f : A -> C) (g : B -> C) l1 l2 i a :
  map f l1 = map g l2 -> nth_error l1 i = Some a -> exists b, nth_error l2 i = Some b /\ f a = g b.
Proof.
  intros Hm Hn. assert (Hx : nth_error (map f l1) i = Some (f a)) by (rewrite nth_error_map, Hn; reflexivity).
  rewrite Hm, nth_error_map in Hx. destruct (nth_error l2 i) as [b|]; [|discriminate].
  exists b. split; [reflexivity|]. now inversion Hx.
Qed.

Section Eph.
  Variable H : bytes -> bytes.
  Notation pid := (pid H).

  (* spend number i spends a coin that spend number j of the same bundle creates *)
  Definition child_at (ps : list pspend) (i : nat) : Prop :=
    exists p j q h, nth_error ps i = Some p /\ nth_error ps j = Some q /\ pid q = ps_parent p /\
                    In (CCreateCoin (ps_ph p) (ps_amount p) h) (kn q).

  Definition spent_of (ps : list pspend) : list (bytes * nat) :=
    rev (map (fun ip => (pid (snd ip), fst ip)) (enum ps)).

  Lemma spent_lookup_sound ps x j :
    lookup_idx x (spent_of ps) = Some j -> exists q, nth_error ps j = Some q /\ pid q = x.
  Proof.
    intros Hl. apply lookup_idx_In in Hl. unfold spent_of in Hl. apply in_rev in Hl.
    apply in_map_iff in Hl. destruct Hl as [[i q] [E Hin]]. cbn [fst snd] in E. inversion E; subst.
    exists q. split; [now apply enum_iff|reflexivity].
  Qed.

  Lemma spent_lookup_complete ps j q :
    NoDup (map pid ps) -> nth_error ps j = Some q -> lookup_idx (pid q) (spent_of ps) = Some j.
  Proof.
    intros Hnd Hn.
    assert (Hex : exists i, lookup_idx (pid q) (spent_of ps) = Some i).
    { apply lookup_idx_Some. apply in_map_iff. exists (pid q, j). split; [reflexivity|].
      unfold spent_of. apply -> in_rev. apply in_map_iff. exists (j, q). split; [reflexivity|now apply enum_iff]. }
    destruct Hex as [i Hi]. rewrite Hi. f_equal.
    destruct (spent_lookup_sound _ _ _ Hi) as [q' [Hn' Hid]].
    rewrite NoDup_nth_error in Hnd. symmetry. apply Hnd.
    - rewrite map_length. apply nth_error_Some. congruence.
    - rewrite !nth_error_map, Hn, Hn'. cbn. now rewrite Hid.
  Qed.

  Lemma created_in q ph amt :
    existsb (fun c => coin_eq c ph amt) (flat_map c_created (kn q)) = true <->
    exists h, In (CCreateCoin ph amt h) (kn q).
  Proof.
    rewrite existsb_exists. split.
    - intros [c [Hin Heq]]. apply in_flat_map in Hin. destruct Hin as [cond [Hc Hi]].
      destruct cond; cbn [c_created In] in Hi; try contradiction. destruct Hi as [<-|[]].
      unfold coin_eq in Heq. cbn [nc_amount nc_ph] in Heq. apply Bool.andb_true_iff in Heq. destruct Heq as [Ea Ep].
      apply N.eqb_eq in Ea. apply bytes_eqb_eq in Ep. subst. now exists hint.
    - intros [h Hin]. exists {| nc_ph := ph; nc_amount := amt; nc_hint := h |}. split.
      + apply in_flat_map. exists (CCreateCoin ph amt h). split; [exact Hin|now left].
      + unfold coin_eq. cbn. now rewrite N.eqb_refl, bytes_eqb_refl.
  Qed.

  Lemma is_ephemeral_iff ps spends i :
    map sident spends = map (pident H) ps -> NoDup (map pid ps) ->
    (is_ephemeral spends (spent_of ps) i = true <-> child_at ps i).
  Proof.
    intros Hm Hnd. unfold is_ephemeral, child_at. split.
    - intros He.
      destruct (nth_error spends i) as [s|] eqn:Es; [|discriminate].
      destruct (map_eq_nth _ _ _ _ _ _ Hm Es) as [p [Hp Hsp]].
      unfold sident, pident in Hsp. injection Hsp as S1 S2 S3 S4 S5.
      rewrite S2 in He.
      destruct (lookup_idx (ps_parent p) (spent_of ps)) as [j|] eqn:El; [|discriminate].
      destruct (spent_lookup_sound _ _ _ El) as [q [Hq Hid]].
      destruct (nth_error spends j) as [sj|] eqn:Ej; [|discriminate].
      destruct (map_eq_nth _ _ _ _ _ _ Hm Ej) as [q' [Hq' Hsq]].
      assert (q' = q) by congruence. subst q'.
      unfold sident, pident in Hsq. injection Hsq as T1 T2 T3 T4 T5.
      rewrite T5, S3, S4 in He. apply created_in in He. destruct He as [h Hin].
      exists p, j, q, h. repeat split; assumption.
    - intros [p [j [q [h [Hp [Hq [Hid Hin]]]]]]].
      symmetry in Hm.
      destruct (map_eq_nth _ _ _ _ _ _ Hm Hp) as [s [Es Hsp]]. rewrite Es.
      unfold sident, pident in Hsp. injection Hsp as S1 S2 S3 S4 S5.
      rewrite <- S2, <- Hid, (spent_lookup_complete _ _ _ Hnd Hq).
      destruct (map_eq_nth _ _ _ _ _ _ Hm Hq) as [sj [Ej Hsq]]. rewrite Ej.
      unfold sident, pident in Hsq. injection Hsq as T1 T2 T3 T4 T5.
      rewrite <- T5, <- S3, <- S4. apply created_in. now exists h.
  Qed.
End Eph.

(* validate_conditions succeeds exactly when each of its checks passes *)
Lemma validate_conditions_inv H ret spends state :
  validate_conditions H ret spends state = Ok tt <->
  (b_removal ret <? b_addition ret) = false /\
  (b_removal ret - b_addition ret <? b_reserve_fee ret) = false /\
  match b_before_height_absolute ret with Some bh => bh <=? b_height_absolute ret | None => false end = false /\
  match b_before_seconds_absolute ret with Some bs => bs <=? b_seconds_absolute ret | None => false end = false /\
  forallb (fun id => match lookup_idx id (s_spent_coins state) with Some _ => true | None => false end)
          (s_assert_concurrent_spend state) = true /\
  forallb (fun ph => mem_bytes ph (s_spent_puzzles state)) (s_assert_concurrent_puzzle state) = true /\
  forallb (fun a => mem_bytes a (map (fun cm => H (fst cm ++ snd cm)) (s_announce_coin state))) (s_assert_coin state) = true /\
  forallb (is_ephemeral spends (s_spent_coins state)) (s_assert_ephemeral state) = true /\
  existsb (is_ephemeral spends (s_spent_coins state)) (s_assert_not_ephemeral state) = false /\
  forallb (fun a => mem_bytes a (map (fun pm => H (fst pm ++ snd pm)) (s_announce_puzzle state))) (s_assert_puzzle state) = true /\
  forallb (fun kv => Z.eqb (snd kv) 0)
          (fold_left (fun acc m => add_count (message_key m) (m_counter m) acc) (s_messages state) []) = true.
Proof.
  unfold validate_conditions. cbv zeta.
  destruct (b_removal ret <? b_addition ret); [split; [discriminate|intros [E _]; discriminate]|].
  destruct (b_removal ret - b_addition ret <? b_reserve_fee ret); [split; [discriminate|intros [_ [E _]]; discriminate]|].
  destruct (match b_before_height_absolute ret with Some bh => bh <=? b_height_absolute ret | None => false end);
    [split; [discriminate|intros [_ [_ [E _]]]; discriminate]|].
  destruct (match b_before_seconds_absolute ret with Some bs => bs <=? b_seconds_absolute ret | None => false end);
    [split; [discriminate|intros [_ [_ [_ [E _]]]]; discriminate]|].
  destruct (forallb _ (s_assert_concurrent_spend state)); cbn [negb];
    [|split; [discriminate|intros [_ [_ [_ [_ [E _]]]]]; discriminate]].
  destruct (forallb _ (s_assert_concurrent_puzzle state)); cbn [negb];
    [|split; [discriminate|intros [_ [_ [_ [_ [_ [E _]]]]]]; discriminate]].
  destruct (forallb _ (s_assert_coin state)); cbn [negb];
    [|split; [discriminate|intros [_ [_ [_ [_ [_ [_ [E _]]]]]]]; discriminate]].
  destruct (forallb _ (s_assert_ephemeral state)); cbn [negb];
    [|split; [discriminate|intros [_ [_ [_ [_ [_ [_ [_ [E _]]]]]]]]; discriminate]].
  destruct (existsb _ (s_assert_not_ephemeral state));
    [split; [discriminate|intros [_ [_ [_ [_ [_ [_ [_ [_ [E _]]]]]]]]]; discriminate]|].
  destruct (forallb _ (s_assert_puzzle state)); cbn [negb];
    [|split; [discriminate|intros [_ [_ [_ [_ [_ [_ [_ [_ [_ [E _]]]]]]]]]]; discriminate]].
  destruct (forallb _ (fold_left _ _ _)); cbn [negb];
    [|split; [discriminate|intros [_ [_ [_ [_ [_ [_ [_ [_ [_ [_ E]]]]]]]]]]; discriminate]].
  split; [intros _; repeat split|reflexivity].
Qed.

(* ---------- the deferred validation, declaratively ---------- *)
Section Deferred.
  Variable H : bytes -> bytes.
  Notation pid := (pid H).

  Definition all_messages (ps : list pspend) : list message :=
    flat_map (fun p => flat_map (c_messages (pid p) (ps_parent p) (ps_ph p) (ps_amount p)) (kn p)) ps.

  Record CrossRules (ps : list pspend) : Prop := {
    cr_conc_spend : conc_spend_ok H ps;
    cr_conc_puzzle : conc_puzzle_ok ps;
    cr_ann_coin : ann_coin_ok H ps;
    cr_ann_puzzle : ann_puzzle_ok H ps;
    (* ASSERT_EPHEMERAL: the coin is created by another spend of this bundle *)
    cr_eph : forall i p, nth_error ps i = Some p -> In CAssertEphemeral (kn p) -> child_at H ps i;
    (* relative and birth assertions (also with out-of-range arguments) are illegal on such a coin *)
    cr_not_eph : forall i p, nth_error ps i = Some p -> existsb relative_class (kn p) = true -> ~ child_at H ps i;
    (* every message key is sent exactly as often as it is received *)
    cr_messages : forall k, balance (all_messages ps) k = 0%Z
  }.

  Lemma c_eph_in i c j : In j (c_eph i c) <-> c = CAssertEphemeral /\ j = i.
  Proof. destruct c; cbn; split; try tauto; try (intros [E _]; discriminate). intros [E|[]]. now split. intros [_ ->]. now left. Qed.

  Theorem deferred_validation_iff ps ret state spends :
    Coll H ps ret state ->
    s_assert_not_ephemeral state = rev (flat_map rel_idx (enum ps)) ->
    map sident spends = map (pident H) ps ->
    NoDup (map pid ps) ->
    (validate_conditions H ret spends state = Ok tt <->
     b_addition ret + b_reserve_fee ret <= b_removal ret /\
     match b_before_height_absolute ret with Some bh => b_height_absolute ret < bh | None => True end /\
     match b_before_seconds_absolute ret with Some bs => b_seconds_absolute ret < bs | None => True end /\
     CrossRules ps).
  Proof.
    intros C Hne Hsp Hnd.
    pose proof (conc_spend_iff H ps ret state C) as I1. pose proof (conc_puzzle_iff H ps ret state C) as I2.
    pose proof (ann_coin_iff H ps ret state C) as I3. pose proof (ann_puzzle_iff H ps ret state C) as I4.
    assert (Espent : s_spent_coins state = spent_of H ps) by (destruct C; assumption).
    assert (Emsg : s_messages state = rev (all_messages ps)) by (destruct C; assumption).
    assert (Eeph : s_assert_ephemeral state = rev (flat_map (fun ip => flat_map (c_eph (fst ip)) (kn (snd ip))) (enum ps)))
      by (destruct C; assumption).
    (* the two index-based clauses *)
    assert (I5 : forallb (is_ephemeral spends (s_spent_coins state)) (s_assert_ephemeral state) = true <->
                 (forall i p, nth_error ps i = Some p -> In CAssertEphemeral (kn p) -> child_at H ps i)).
    { rewrite forallb_In, Espent, Eeph. split.
      - intros Hall i p Hp Hin. apply (is_ephemeral_iff H ps spends i Hsp Hnd). apply Hall.
        apply in_rev_flat_map. exists (i, p). split; [now apply enum_iff|]. cbn [fst snd].
        apply in_flat_map. exists CAssertEphemeral. split; [exact Hin|now left].
      - intros Hok i Hin. apply in_rev_flat_map in Hin. destruct Hin as [[j p] [Hjp Hin]]. cbn [fst snd] in Hin.
        apply in_flat_map in Hin. destruct Hin as [c [Hc Hi]]. apply c_eph_in in Hi. destruct Hi as [-> ->].
        apply (is_ephemeral_iff H ps spends j Hsp Hnd). eapply Hok; [apply enum_iff; exact Hjp|exact Hc]. }
    assert (I6 : existsb (is_ephemeral spends (s_spent_coins state)) (s_assert_not_ephemeral state) = false <->
                 (forall i p, nth_error ps i = Some p -> existsb relative_class (kn p) = true -> ~ child_at H ps i)).
    { rewrite Espent, Hne. split.
      - intros Hex i p Hp Hrel Hch.
        assert (Ht : existsb (is_ephemeral spends (spent_of H ps)) (rev (flat_map rel_idx (enum ps))) = true).
        { apply existsb_exists. exists i. split; [|now apply (is_ephemeral_iff H ps spends i Hsp Hnd)].
          apply in_rev_flat_map. exists (i, p). split; [now apply enum_iff|]. unfold rel_idx. cbn [fst snd]. rewrite Hrel. now left. }
        congruence.
      - intros Hok. destruct (existsb _ _) eqn:E; [|reflexivity]. exfalso.
        apply existsb_exists in E. destruct E as [i [Hin He]].
        apply in_rev_flat_map in Hin. destruct Hin as [[j p] [Hjp Hin]]. unfold rel_idx in Hin. cbn [fst snd] in Hin.
        destruct (existsb relative_class (kn p)) eqn:Er; [|destruct Hin]. destruct Hin as [<-|[]].
        apply (Hok j p); [now apply enum_iff|exact Er|]. now apply (is_ephemeral_iff H ps spends j Hsp Hnd). }
    assert (I7 : forallb (fun kv => Z.eqb (snd kv) 0)
                   (fold_left (fun acc m => add_count (message_key m) (m_counter m) acc) (s_messages state) []) = true <->
                 (forall k, balance (all_messages ps) k = 0%Z)).
    { rewrite messages_iff, Emsg. split; intros Hb k; [rewrite <- balance_rev|rewrite balance_rev]; apply Hb. }
    rewrite validate_conditions_inv, I1, I2, I3, I4, I5, I6, I7.
    split.
    - intros [A1 [A2 [A3 [A4 [R1 [R2 [R3 [R5 [R6 [R4 R7]]]]]]]]]].
      apply N.ltb_ge in A1. apply N.ltb_ge in A2.
      split; [lia|]. split.
      { destruct (b_before_height_absolute ret); [|exact I]. apply N.leb_gt in A3. exact A3. }
      split.
      { destruct (b_before_seconds_absolute ret); [|exact I]. apply N.leb_gt in A4. exact A4. }
      constructor; assumption.
    - intros [Hamt [Hh [Hs [R1 R2 R3 R4 R5 R6 R7]]]].
      repeat split; try assumption.
      + apply N.ltb_ge. lia.
      + apply N.ltb_ge. lia.
      + destruct (b_before_height_absolute ret); [|reflexivity]. apply N.leb_gt. exact Hh.
      + destruct (b_before_seconds_absolute ret); [|reflexivity]. apply N.leb_gt. exact Hs.
  Qed.
End Deferred.
