(* Cond/Model.v — mirror of chia-consensus/src/conditions.rs (parse_opcode, parse_args,
   process_single_spend, parse_conditions, parse_spends, validate_conditions, both visitors),
   condition_sanitizers.rs, messages.rs and the list helpers of validation_error.rs.
   Definitions only.  Follows the Rust control flow: early exits, the order of checks, the cost
   pre-charge, the deferred bundle-level validation.
   Oracles (parameters): which 48-byte strings are valid non-infinity G1 keys; the aggregate
   signature verdict is applied by the caller on the returned (key, message) pairs. *)
From ChiaV.Base Require Import Bytes.
From ChiaV.Clvm Require Import Sexp Ints.
From ChiaV.Gen Require Import Opcodes Ladders.
Open Scope N_scope.

(* ---------- errors ---------- *)
Inductive ecode :=
| InvalidCondition | InvalidConditionOpcode | InvalidParentId | InvalidPuzzleHash | InvalidPublicKey
| InvalidMessage | InvalidCoinAmount | CoinAmountExceedsMaximum | CoinAmountNegative | InvalidSoftforkCost
| ReserveFeeConditionFailed | InvalidCoinAnnouncement | InvalidPuzzleAnnouncement
| AssertCoinAnnouncementFailed | AssertPuzzleAnnouncementFailed | AssertConcurrentSpendFailed
| AssertConcurrentPuzzleFailed | AssertMyCoinIdFailed | AssertMyParentIdFailed | AssertMyPuzzleHashFailed
| AssertMyAmountFailed | AssertMyBirthSecondsFailed | AssertMyBirthHeightFailed
| AssertSecondsRelativeFailed | AssertSecondsAbsoluteFailed | AssertHeightRelativeFailed
| AssertHeightAbsoluteFailed | AssertBeforeSecondsRelativeFailed | AssertBeforeSecondsAbsoluteFailed
| AssertBeforeHeightRelativeFailed | AssertBeforeHeightAbsoluteFailed | InvalidMessageMode | InvalidCoinId
| DoubleSpend | CostExceeded | DuplicateOutput | ImpossibleSecondsRelativeConstraints
| ImpossibleHeightRelativeConstraints | ImpossibleHeightAbsoluteConstraints
| ImpossibleSecondsAbsoluteConstraints | TooManyAnnouncements | TooManySpends | MintingCoin
| AssertEphemeralFailed | EphemeralRelativeCondition | MessageNotSentOrReceived | BadAggregateSignature
| GeneratorRuntimeError | WrongPuzzleHash | InvalidSpendBundle | InternalPanic.

Inductive res (A : Type) := Ok (a : A) | Err (e : ecode).
Arguments Ok {A} a.
Arguments Err {A} e.

Definition bind {A B} (r : res A) (f : A -> res B) : res B :=
  match r with Ok a => f a | Err e => Err e end.
Notation "x <- r ;; k" := (bind r (fun x => k)) (at level 61, r at next level, right associativity).
Notation "' p <- r ;; k" := (bind r (fun p => k)) (at level 61, p pattern, r at next level, right associativity).

(* ---------- flags ---------- *)
Record cflags := {
  f_no_unknown : bool;       (* NO_UNKNOWN_CONDS *)
  f_strict : bool;           (* STRICT_ARGS_COUNT *)
  f_cost_conds : bool;       (* COST_CONDITIONS *)
  f_limit_spends : bool;     (* LIMIT_SPENDS *)
  f_dont_validate : bool     (* DONT_VALIDATE_SIGNATURE *)
}.

Definition flags_of_bits (n : N) : cflags :=
  {| f_no_unknown := negb (N.land n FLAG_NO_UNKNOWN_CONDS =? 0);
     f_strict := negb (N.land n FLAG_STRICT_ARGS_COUNT =? 0);
     f_cost_conds := negb (N.land n FLAG_COST_CONDITIONS =? 0);
     f_limit_spends := negb (N.land n FLAG_LIMIT_SPENDS =? 0);
     f_dont_validate := negb (N.land n FLAG_DONT_VALIDATE_SIGNATURE =? 0) |}.

(* the seven domain-separation constants, in the order of check_agg_sig_unsafe_message *)
Record consts := {
  c_me : bytes; c_parent : bytes; c_puzzle : bytes; c_amount : bytes;
  c_puzzle_amount : bytes; c_parent_amount : bytes; c_parent_puzzle : bytes
}.

(* ---------- list helpers (validation_error.rs) ---------- *)
Definition first (t : sexp) : res sexp :=
  match t with Pair l _ => Ok l | Atom _ => Err InvalidCondition end.
Definition rest (t : sexp) : res sexp :=
  match t with Pair _ r => Ok r | Atom _ => Err InvalidCondition end.
Definition check_nil (t : sexp) : res unit :=
  match t with Atom [] => Ok tt | _ => Err InvalidCondition end.
Definition atom_of (t : sexp) (e : ecode) : res bytes :=
  match t with Atom b => Ok b | Pair _ _ => Err e end.

(* ---------- sanitizers (condition_sanitizers.rs) ---------- *)
Definition sanitize_hash (t : sexp) (size : nat) (e : ecode) : res bytes :=
  b <- atom_of t e ;; if Nat.eqb (length b) size then Ok b else Err e.

Definition sanitize_announce_msg (t : sexp) (e : ecode) : res bytes :=
  b <- atom_of t e ;; if Nat.ltb 1024 (length b) then Err e else Ok b.

(* sanitize_uint on a node: pair -> Err code; SErr -> Err code *)
Definition sanitize_uint_node (t : sexp) (max_size : nat) (e : ecode) : res sanitized :=
  match t with
  | Pair _ _ => Err e
  | Atom b => match sanitize_uint b max_size with SErr => Err e | s => Ok s end
  end.

Definition parse_amount (t : sexp) (e : ecode) : res N :=
  s <- sanitize_uint_node t 8 e ;;
  match s with SOk n => Ok n | _ => Err e end.

(* clvmr fits_in_small_atom: canonical, non-negative, < 2^26 *)
Definition small_number (v : bytes) : option N :=
  match v with
  | [] => Some 0
  | b0 :: tl =>
      if Nat.ltb 4 (length v) then None
      else if match tl with [] => b2n b0 =? 0 | _ => false end then None
      else if 128 <=? b2n b0 then None
      else if match tl with b1 :: _ => (b2n b0 =? 0) && (b2n b1 <? 128) | [] => false end then None
      else if Nat.eqb (length v) 4 && (3 <? b2n b0) then None
      else Some (be2n v)
  end.

Definition sanitize_message_mode (t : sexp) : res N :=
  match t with
  | Pair _ _ => Err InvalidMessageMode
  | Atom b =>
      match small_number b with
      | Some m => if m <? 64 then Ok m else Err InvalidMessageMode
      | None => Err InvalidMessageMode
      end
  end.

(* ---------- opcodes ---------- *)
Definition parse_opcode (t : sexp) : option N :=
  match t with
  | Pair _ _ => None
  | Atom [b0; b1] => if b2n b0 =? 0 then None else Some (b2n b0 * 256 + b2n b1)
  | Atom [b] => if existsb (N.eqb (b2n b)) opcode_whitelist then Some (b2n b) else None
  | Atom _ => None
  end.

(* Cond/CostTable.v defines the 2-byte opcode cost; parameterised here to keep this file small *)
Fixpoint cost_table_loop (fuel : nat) (num den : N) (acc : list N) : list N :=
  match fuel with
  | O => rev acc
  | S f =>
      let v := num / den in
      let p10 :=
        (fix grow (g : nat) (p : N) : N :=
           match g with O => p | S g' => if p <? v then grow g' (p * 10) else p end) 25%nat 1000 in
      let p := p10 / 1000 in
      let entry := (v / p) * p in
      let num1 := num * 17 in
      let den1 := den * 16 in
      let '(num2, den2) :=
        (fix shrink (g : nat) (n d : N) : N * N :=
           match g with
           | O => (n, d)
           | S g' => if 2 ^ 59 <? n then shrink g' (n / 32) (d / 32) else (n, d)
           end) 16%nat num1 den1 in
      cost_table_loop f num2 den2 (entry :: acc)
  end.

Definition COSTS : list N := cost_table_loop 256 100 1 [].

Definition compute_unknown_condition_cost (op : N) : N :=
  if op <? 256 then 0 else nth (N.to_nat (op mod 256)) COSTS 0.

(* ---------- conditions ---------- *)
Inductive spend_id :=
| SidCoinId (c : bytes) | SidParent (p : bytes) | SidPuzzle (p : bytes) | SidAmount (n : N)
| SidPuzzleAmount (p : bytes) (n : N) | SidParentAmount (p : bytes) (n : N)
| SidParentPuzzle (p q : bytes) | SidNone.

Inductive condition :=
| CAggSig (op : N) (pk msg : bytes)
| CCreateCoin (ph : bytes) (amount : N) (hint : bytes)      (* hint [] = no hint (nil node) *)
| CReserveFee (n : N)
| CCreateCoinAnnouncement (msg : bytes)
| CCreatePuzzleAnnouncement (msg : bytes)
| CAssertCoinAnnouncement (id : bytes)
| CAssertPuzzleAnnouncement (id : bytes)
| CAssertConcurrentSpend (id : bytes)
| CAssertConcurrentPuzzle (id : bytes)
| CAssertMyCoinId (id : bytes)
| CAssertMyParentId (id : bytes)
| CAssertMyPuzzlehash (id : bytes)
| CAssertMyAmount (n : N)
| CAssertMyBirthSeconds (n : N)
| CAssertMyBirthHeight (n : N)
| CAssertSecondsRelative (n : N)
| CAssertSecondsAbsolute (n : N)
| CAssertHeightRelative (n : N)
| CAssertHeightAbsolute (n : N)
| CAssertBeforeSecondsRelative (n : N)
| CAssertBeforeSecondsAbsolute (n : N)
| CAssertBeforeHeightRelative (n : N)
| CAssertBeforeHeightAbsolute (n : N)
| CAssertEphemeral
| CSoftfork (cost : N)
| CSendMessage (src_mode : N) (dst : spend_id) (msg : bytes)
| CReceiveMessage (src : spend_id) (dst_mode : N) (msg : bytes)
| CSkip
| CSkipRelativeCondition.

Definition maybe_check_args_terminator (fl : cflags) (arg : sexp) : res unit :=
  if f_strict fl then (r <- rest arg ;; check_nil r) else Ok tt.

(* SpendId::parse; returns the id and the remaining argument list *)
Definition spend_id_parse (args : sexp) (mode : N) : res (spend_id * sexp) :=
  if mode =? MODE_COINID then
    f <- first args ;; c <- sanitize_hash f 32 InvalidCoinId ;; r <- rest args ;; Ok (SidCoinId c, r)
  else
    '(parent, args1) <-
      (if negb (N.land mode MODE_PARENT =? 0) then
         f <- first args ;; p <- sanitize_hash f 32 InvalidParentId ;; r <- rest args ;; Ok (p, r)
       else Ok ([], args)) ;;
    '(puzzle, args2) <-
      (if negb (N.land mode MODE_PUZZLE =? 0) then
         f <- first args1 ;; p <- sanitize_hash f 32 InvalidPuzzleHash ;; r <- rest args1 ;; Ok (p, r)
       else Ok ([], args1)) ;;
    '(amount, args3) <-
      (if negb (N.land mode MODE_AMOUNT =? 0) then
         f <- first args2 ;;
         s <- sanitize_uint_node f 8 InvalidCoinAmount ;;
         match s with
         | SPosOverflow => Err CoinAmountExceedsMaximum
         | SNegOverflow => Err CoinAmountNegative
         | SOk n => r <- rest args2 ;; Ok (n, r)
         | SErr => Err InvalidCoinAmount
         end
       else Ok (0, args2)) ;;
    if mode =? MODE_PARENT then Ok (SidParent parent, args3)
    else if mode =? MODE_PUZZLE then Ok (SidPuzzle puzzle, args3)
    else if mode =? MODE_AMOUNT then Ok (SidAmount amount, args3)
    else if mode =? MODE_PARENTPUZZLE then Ok (SidParentPuzzle parent puzzle, args3)
    else if mode =? MODE_PARENTAMOUNT then Ok (SidParentAmount parent amount, args3)
    else if mode =? MODE_PUZZLEAMOUNT then Ok (SidPuzzleAmount puzzle amount, args3)
    else if mode =? 0 then Ok (SidNone, args3)
    else Err InvalidMessageMode.

Definition spend_id_from_self (mode : N) (parent puzzle : bytes) (amount : N) (coin_id : bytes) : res spend_id :=
  if mode =? MODE_COINID then Ok (SidCoinId coin_id)
  else if mode =? MODE_PARENT then Ok (SidParent parent)
  else if mode =? MODE_PUZZLE then Ok (SidPuzzle puzzle)
  else if mode =? MODE_AMOUNT then Ok (SidAmount amount)
  else if mode =? MODE_PARENTPUZZLE then Ok (SidParentPuzzle parent puzzle)
  else if mode =? MODE_PARENTAMOUNT then Ok (SidParentAmount parent amount)
  else if mode =? MODE_PUZZLEAMOUNT then Ok (SidPuzzleAmount puzzle amount)
  else if mode =? 0 then Ok SidNone
  else Err InvalidMessageMode.

Definition spend_id_key (s : spend_id) : bytes :=
  match s with
  | SidCoinId c => n2b MODE_COINID :: c
  | SidParent p => n2b MODE_PARENT :: p
  | SidPuzzle p => n2b MODE_PUZZLE :: p
  | SidAmount n => n2b MODE_AMOUNT :: n2be 8 n
  | SidPuzzleAmount p n => n2b MODE_PUZZLEAMOUNT :: p ++ n2be 8 n
  | SidParentAmount p n => n2b MODE_PARENTAMOUNT :: p ++ n2be 8 n
  | SidParentPuzzle p q => n2b MODE_PARENTPUZZLE :: p ++ q
  | SidNone => [x00]
  end.

Definition is_agg_sig (op : N) : bool :=
  (op =? AGG_SIG_UNSAFE) || (op =? AGG_SIG_ME) || (op =? AGG_SIG_PUZZLE) || (op =? AGG_SIG_PUZZLE_AMOUNT)
  || (op =? AGG_SIG_PARENT) || (op =? AGG_SIG_AMOUNT) || (op =? AGG_SIG_PARENT_PUZZLE)
  || (op =? AGG_SIG_PARENT_AMOUNT).

(* "timelock" argument classes: what Pos/Neg overflow mean per opcode *)
Inductive ovf := OvfErr | OvfSkip | OvfSkipRel.

Definition lock_arg (fl : cflags) (c : sexp) (size : nat) (e : ecode) (pos neg : ovf)
           (mk : N -> condition) : res condition :=
  _ <- maybe_check_args_terminator fl c ;;
  node <- first c ;;
  s <- sanitize_uint_node node size e ;;
  let ov (o : ovf) := match o with OvfErr => Err e | OvfSkip => Ok CSkip | OvfSkipRel => Ok CSkipRelativeCondition end in
  match s with
  | SPosOverflow => ov pos
  | SNegOverflow => ov neg
  | SOk r => Ok (mk r)
  | SErr => Err e
  end.

Definition hash_arg (fl : cflags) (c : sexp) (e : ecode) (mk : bytes -> condition) : res condition :=
  _ <- maybe_check_args_terminator fl c ;;
  f <- first c ;; id <- sanitize_hash f 32 e ;; Ok (mk id).

Definition msg_arg (fl : cflags) (c : sexp) (e : ecode) (mk : bytes -> condition) : res condition :=
  _ <- maybe_check_args_terminator fl c ;;
  f <- first c ;; m <- sanitize_announce_msg f e ;; Ok (mk m).

Definition parse_args (fl : cflags) (c : sexp) (op : N) : res condition :=
  if is_agg_sig op then
    f <- first c ;; pubkey <- sanitize_hash f 48 InvalidPublicKey ;;
    c1 <- rest c ;;
    f1 <- first c1 ;; message <- sanitize_announce_msg f1 InvalidMessage ;;
    _ <- (if f_strict fl then (r <- rest c1 ;; check_nil r) else Ok tt) ;;
    Ok (CAggSig op pubkey message)
  else if op =? CREATE_COIN then
    f <- first c ;; puzzle_hash <- sanitize_hash f 32 InvalidPuzzleHash ;;
    c1 <- rest c ;;
    node <- first c1 ;;
    s <- sanitize_uint_node node 8 InvalidCoinAmount ;;
    match s with
    | SPosOverflow => Err CoinAmountExceedsMaximum
    | SNegOverflow => Err CoinAmountNegative
    | SErr => Err InvalidCoinAmount
    | SOk amount =>
        c2 <- rest c1 ;;
        match c2 with
        | Pair params _ =>
            _ <- maybe_check_args_terminator fl c2 ;;
            match params with
            | Pair (Atom param) _ =>
                if Nat.leb (length param) 32 then Ok (CCreateCoin puzzle_hash amount param)
                else Ok (CCreateCoin puzzle_hash amount [])
            | _ => Ok (CCreateCoin puzzle_hash amount [])
            end
        | Atom _ =>
            _ <- (if f_strict fl then check_nil c2 else Ok tt) ;;
            Ok (CCreateCoin puzzle_hash amount [])
        end
    end
  else if op =? SOFTFORK then
    if f_no_unknown fl then Err InvalidConditionOpcode
    else
      f <- first c ;;
      s <- sanitize_uint_node f 4 InvalidSoftforkCost ;;
      match s with SOk cost => Ok (CSoftfork (cost * 10000)) | _ => Err InvalidSoftforkCost end
  else if (256 <=? op) && (op <=? 65535) then
    if f_no_unknown fl then Err InvalidConditionOpcode
    else Ok (CSoftfork (compute_unknown_condition_cost op))
  else if op =? RESERVE_FEE then
    _ <- maybe_check_args_terminator fl c ;;
    f <- first c ;; fee <- parse_amount f ReserveFeeConditionFailed ;; Ok (CReserveFee fee)
  else if op =? CREATE_COIN_ANNOUNCEMENT then msg_arg fl c InvalidCoinAnnouncement CCreateCoinAnnouncement
  else if op =? ASSERT_COIN_ANNOUNCEMENT then hash_arg fl c AssertCoinAnnouncementFailed CAssertCoinAnnouncement
  else if op =? CREATE_PUZZLE_ANNOUNCEMENT then msg_arg fl c InvalidPuzzleAnnouncement CCreatePuzzleAnnouncement
  else if op =? ASSERT_PUZZLE_ANNOUNCEMENT then hash_arg fl c AssertPuzzleAnnouncementFailed CAssertPuzzleAnnouncement
  else if op =? ASSERT_CONCURRENT_SPEND then hash_arg fl c AssertConcurrentSpendFailed CAssertConcurrentSpend
  else if op =? ASSERT_CONCURRENT_PUZZLE then hash_arg fl c AssertConcurrentPuzzleFailed CAssertConcurrentPuzzle
  else if op =? ASSERT_MY_COIN_ID then hash_arg fl c AssertMyCoinIdFailed CAssertMyCoinId
  else if op =? ASSERT_MY_PARENT_ID then hash_arg fl c AssertMyParentIdFailed CAssertMyParentId
  else if op =? ASSERT_MY_PUZZLEHASH then hash_arg fl c AssertMyPuzzleHashFailed CAssertMyPuzzlehash
  else if op =? ASSERT_MY_AMOUNT then
    _ <- maybe_check_args_terminator fl c ;;
    f <- first c ;; amount <- parse_amount f AssertMyAmountFailed ;; Ok (CAssertMyAmount amount)
  else if op =? ASSERT_MY_BIRTH_SECONDS then
    lock_arg fl c 8 AssertMyBirthSecondsFailed OvfErr OvfErr CAssertMyBirthSeconds
  else if op =? ASSERT_MY_BIRTH_HEIGHT then
    lock_arg fl c 4 AssertMyBirthHeightFailed OvfErr OvfErr CAssertMyBirthHeight
  else if op =? ASSERT_EPHEMERAL then
    _ <- (if f_strict fl then check_nil c else Ok tt) ;; Ok CAssertEphemeral
  else if op =? ASSERT_SECONDS_RELATIVE then
    lock_arg fl c 8 AssertSecondsRelativeFailed OvfErr OvfSkipRel CAssertSecondsRelative
  else if op =? ASSERT_SECONDS_ABSOLUTE then
    lock_arg fl c 8 AssertSecondsAbsoluteFailed OvfErr OvfSkip CAssertSecondsAbsolute
  else if op =? ASSERT_HEIGHT_RELATIVE then
    lock_arg fl c 4 AssertHeightRelativeFailed OvfErr OvfSkipRel CAssertHeightRelative
  else if op =? ASSERT_HEIGHT_ABSOLUTE then
    lock_arg fl c 4 AssertHeightAbsoluteFailed OvfErr OvfSkip CAssertHeightAbsolute
  else if op =? ASSERT_BEFORE_SECONDS_RELATIVE then
    lock_arg fl c 8 AssertBeforeSecondsRelativeFailed OvfSkipRel OvfErr CAssertBeforeSecondsRelative
  else if op =? ASSERT_BEFORE_SECONDS_ABSOLUTE then
    lock_arg fl c 8 AssertBeforeSecondsAbsoluteFailed OvfSkip OvfErr CAssertBeforeSecondsAbsolute
  else if op =? ASSERT_BEFORE_HEIGHT_RELATIVE then
    lock_arg fl c 4 AssertBeforeHeightRelativeFailed OvfSkipRel OvfErr CAssertBeforeHeightRelative
  else if op =? ASSERT_BEFORE_HEIGHT_ABSOLUTE then
    lock_arg fl c 4 AssertBeforeHeightAbsoluteFailed OvfSkip OvfErr CAssertBeforeHeightAbsolute
  else if op =? SEND_MESSAGE then
    f <- first c ;; mode <- sanitize_message_mode f ;;
    c1 <- rest c ;;
    f1 <- first c1 ;; message <- sanitize_announce_msg f1 InvalidMessage ;;
    c2 <- rest c1 ;;
    '(dst, c3) <- spend_id_parse c2 (N.land mode 7) ;;
    _ <- (if f_strict fl then check_nil c3 else Ok tt) ;;
    Ok (CSendMessage (N.land (N.shiftr mode 3) 7) dst message)
  else if op =? RECEIVE_MESSAGE then
    f <- first c ;; mode <- sanitize_message_mode f ;;
    c1 <- rest c ;;
    f1 <- first c1 ;; message <- sanitize_announce_msg f1 InvalidMessage ;;
    c2 <- rest c1 ;;
    '(src, c3) <- spend_id_parse c2 (N.land (N.shiftr mode 3) 7) ;;
    _ <- (if f_strict fl then check_nil c3 else Ok tt) ;;
    Ok (CReceiveMessage src (N.land mode 7) message)
  else if op =? REMARK then Ok CSkip
  else Err InvalidConditionOpcode.

(* ---------- summaries and parse state ---------- *)
Record new_coin := { nc_ph : bytes; nc_amount : N; nc_hint : bytes }.

Record spend := {
  sp_parent : bytes; sp_amount : N; sp_ph : bytes; sp_coin_id : bytes;
  sp_height_relative : option N; sp_seconds_relative : option N;
  sp_before_height_relative : option N; sp_before_seconds_relative : option N;
  sp_birth_height : option N; sp_birth_seconds : option N;
  sp_create_coin : list new_coin;                   (* insertion order; a set in the code *)
  sp_agg_sig : list (N * bytes * bytes);            (* (opcode, key, message) in condition order *)
  sp_ff : bool; sp_dedup : bool; sp_has_relative : bool;   (* ELIGIBLE_FOR_FF / _DEDUP / HAS_RELATIVE_CONDITION *)
  sp_exec_cost : N; sp_cond_cost : N
}.

Record bundle := {
  b_spends_rev : list spend;                        (* most recent first *)
  b_reserve_fee : N; b_height_absolute : N; b_seconds_absolute : N;
  b_agg_sig_unsafe : list (bytes * bytes);
  b_before_height_absolute : option N; b_before_seconds_absolute : option N;
  b_cost : N; b_exec_cost : N; b_cond_cost : N; b_removal : N; b_addition : N
}.

Record message := { m_src : spend_id; m_dst : spend_id; m_msg : bytes; m_counter : Z }.

Record pstate := {
  s_announce_coin : list (bytes * bytes);           (* (coin id, message) *)
  s_announce_puzzle : list (bytes * bytes);         (* (puzzle hash, message) *)
  s_assert_coin : list bytes; s_assert_puzzle : list bytes;
  s_messages : list message;
  s_assert_concurrent_spend : list bytes; s_assert_concurrent_puzzle : list bytes;
  s_spent_coins : list (bytes * nat);               (* coin id -> index of its spend *)
  s_spent_puzzles : list bytes;
  s_assert_ephemeral : list nat; s_assert_not_ephemeral : list nat;
  s_pkm_pairs_rev : list (bytes * bytes)            (* most recent first *)
}.

Definition empty_bundle : bundle :=
  {| b_spends_rev := []; b_reserve_fee := 0; b_height_absolute := 0; b_seconds_absolute := 0;
     b_agg_sig_unsafe := []; b_before_height_absolute := None; b_before_seconds_absolute := None;
     b_cost := 0; b_exec_cost := 0; b_cond_cost := 0; b_removal := 0; b_addition := 0 |}.

Definition empty_state : pstate :=
  {| s_announce_coin := []; s_announce_puzzle := []; s_assert_coin := []; s_assert_puzzle := [];
     s_messages := []; s_assert_concurrent_spend := []; s_assert_concurrent_puzzle := [];
     s_spent_coins := []; s_spent_puzzles := []; s_assert_ephemeral := []; s_assert_not_ephemeral := [];
     s_pkm_pairs_rev := [] |}.

Definition new_spend (parent : bytes) (amount : N) (ph coin_id : bytes) (clvm_cost : N) : spend :=
  {| sp_parent := parent; sp_amount := amount; sp_ph := ph; sp_coin_id := coin_id;
     sp_height_relative := None; sp_seconds_relative := None; sp_before_height_relative := None;
     sp_before_seconds_relative := None; sp_birth_height := None; sp_birth_seconds := None;
     sp_create_coin := []; sp_agg_sig := []; sp_ff := false; sp_dedup := false; sp_has_relative := false;
     sp_exec_cost := clvm_cost; sp_cond_cost := 0 |}.

(* record updates, written out (no record-update library) *)
Definition sp_set_locks (s : spend) hr sr bhr bsr bh bs : spend :=
  {| sp_parent := sp_parent s; sp_amount := sp_amount s; sp_ph := sp_ph s; sp_coin_id := sp_coin_id s;
     sp_height_relative := hr; sp_seconds_relative := sr; sp_before_height_relative := bhr;
     sp_before_seconds_relative := bsr; sp_birth_height := bh; sp_birth_seconds := bs;
     sp_create_coin := sp_create_coin s; sp_agg_sig := sp_agg_sig s; sp_ff := sp_ff s; sp_dedup := sp_dedup s;
     sp_has_relative := sp_has_relative s; sp_exec_cost := sp_exec_cost s; sp_cond_cost := sp_cond_cost s |}.
Definition sp_set_flags (s : spend) ff dd hr : spend :=
  {| sp_parent := sp_parent s; sp_amount := sp_amount s; sp_ph := sp_ph s; sp_coin_id := sp_coin_id s;
     sp_height_relative := sp_height_relative s; sp_seconds_relative := sp_seconds_relative s;
     sp_before_height_relative := sp_before_height_relative s;
     sp_before_seconds_relative := sp_before_seconds_relative s; sp_birth_height := sp_birth_height s;
     sp_birth_seconds := sp_birth_seconds s;
     sp_create_coin := sp_create_coin s; sp_agg_sig := sp_agg_sig s; sp_ff := ff; sp_dedup := dd;
     sp_has_relative := hr; sp_exec_cost := sp_exec_cost s; sp_cond_cost := sp_cond_cost s |}.
Definition sp_set_lists (s : spend) cc sigs : spend :=
  {| sp_parent := sp_parent s; sp_amount := sp_amount s; sp_ph := sp_ph s; sp_coin_id := sp_coin_id s;
     sp_height_relative := sp_height_relative s; sp_seconds_relative := sp_seconds_relative s;
     sp_before_height_relative := sp_before_height_relative s;
     sp_before_seconds_relative := sp_before_seconds_relative s; sp_birth_height := sp_birth_height s;
     sp_birth_seconds := sp_birth_seconds s;
     sp_create_coin := cc; sp_agg_sig := sigs; sp_ff := sp_ff s; sp_dedup := sp_dedup s;
     sp_has_relative := sp_has_relative s; sp_exec_cost := sp_exec_cost s; sp_cond_cost := sp_cond_cost s |}.
Definition sp_add_cond_cost (s : spend) (c : N) : spend :=
  {| sp_parent := sp_parent s; sp_amount := sp_amount s; sp_ph := sp_ph s; sp_coin_id := sp_coin_id s;
     sp_height_relative := sp_height_relative s; sp_seconds_relative := sp_seconds_relative s;
     sp_before_height_relative := sp_before_height_relative s;
     sp_before_seconds_relative := sp_before_seconds_relative s; sp_birth_height := sp_birth_height s;
     sp_birth_seconds := sp_birth_seconds s;
     sp_create_coin := sp_create_coin s; sp_agg_sig := sp_agg_sig s; sp_ff := sp_ff s; sp_dedup := sp_dedup s;
     sp_has_relative := sp_has_relative s; sp_exec_cost := sp_exec_cost s; sp_cond_cost := sp_cond_cost s + c |}.

Definition b_with (b : bundle) spends rf ha sa unsafe bha bsa cc rem add : bundle :=
  {| b_spends_rev := spends; b_reserve_fee := rf; b_height_absolute := ha; b_seconds_absolute := sa;
     b_agg_sig_unsafe := unsafe; b_before_height_absolute := bha; b_before_seconds_absolute := bsa;
     b_cost := b_cost b; b_exec_cost := b_exec_cost b; b_cond_cost := cc; b_removal := rem; b_addition := add |}.
Definition b_add_cond_cost (b : bundle) (c : N) : bundle :=
  b_with b (b_spends_rev b) (b_reserve_fee b) (b_height_absolute b) (b_seconds_absolute b) (b_agg_sig_unsafe b)
         (b_before_height_absolute b) (b_before_seconds_absolute b) (b_cond_cost b + c) (b_removal b) (b_addition b).
Definition b_set_abs (b : bundle) rf ha sa bha bsa : bundle :=
  b_with b (b_spends_rev b) rf ha sa (b_agg_sig_unsafe b) bha bsa (b_cond_cost b) (b_removal b) (b_addition b).

(* visitors *)
Inductive visitor := VEmpty | VMempool.

Definition omax (o : option N) (v : N) : option N := match o with Some e => Some (N.max e v) | None => Some v end.
Definition omin (o : option N) (v : N) : option N := match o with Some e => Some (N.min e v) | None => Some v end.

Fixpoint mem_bytes (x : bytes) (l : list bytes) : bool :=
  match l with [] => false | y :: r => bytes_eqb x y || mem_bytes x r end.

Fixpoint lookup_idx (x : bytes) (l : list (bytes * nat)) : option nat :=
  match l with [] => None | (k, i) :: r => if bytes_eqb x k then Some i else lookup_idx x r end.

Definition coin_eq (a : new_coin) (ph : bytes) (amount : N) : bool :=
  (nc_amount a =? amount) && bytes_eqb (nc_ph a) ph.

Definition ends_with (buf suffix : bytes) : bool :=
  let lb := length buf in let ls := length suffix in
  if Nat.ltb lb ls then false else bytes_eqb (skipn (lb - ls) buf) suffix.

Definition check_agg_sig_unsafe_message (k : consts) (msg : bytes) : res unit :=
  if Nat.ltb (length msg) 32 then Ok tt
  else if existsb (ends_with msg)
            [c_me k; c_parent k; c_puzzle k; c_amount k; c_puzzle_amount k; c_parent_amount k; c_parent_puzzle k]
       then Err InvalidMessage else Ok tt.

(* the MempoolVisitor::condition hook; returns the new flags (ff, dedup) *)
Definition mempool_condition (counter : N) (ff dd : bool) (c : condition) : bool * bool :=
  match c with
  | CAssertMyCoinId _ | CAssertHeightRelative _ | CAssertSecondsRelative _
  | CAssertBeforeHeightRelative _ | CAssertBeforeSecondsRelative _
  | CAssertMyBirthHeight _ | CAssertMyBirthSeconds _ | CAssertEphemeral => (false, dd)
  | CAssertMyParentId _ => if counter =? 1 then (ff, dd) else (false, dd)
  | CAggSig op _ _ =>
      if (op =? AGG_SIG_ME) || (op =? AGG_SIG_PARENT) || (op =? AGG_SIG_PARENT_AMOUNT) || (op =? AGG_SIG_PARENT_PUZZLE)
      then (false, false) else (ff, false)
  | CSendMessage src_mode _ _ => (if negb (N.land src_mode MODE_PARENT =? 0) then false else ff, false)
  | CReceiveMessage _ dst_mode _ => (if negb (N.land dst_mode MODE_PARENT =? 0) then false else ff, false)
  | CCreateCoinAnnouncement _ => (false, dd)
  | _ => (ff, dd)
  end.

(* loop state of parse_conditions *)
Record lstate := {
  l_ret : bundle; l_state : pstate; l_spend : spend; l_max_cost : N; l_countdown : N; l_counter : N
}.

Definition charge (st : lstate) (cost : N) : res lstate :=
  if l_max_cost st <? cost then Err CostExceeded
  else Ok {| l_ret := b_add_cond_cost (l_ret st) cost; l_state := l_state st;
             l_spend := sp_add_cond_cost (l_spend st) cost; l_max_cost := l_max_cost st - cost;
             l_countdown := l_countdown st; l_counter := l_counter st |}.

Definition with_spend (st : lstate) (s : spend) : lstate :=
  {| l_ret := l_ret st; l_state := l_state st; l_spend := s; l_max_cost := l_max_cost st;
     l_countdown := l_countdown st; l_counter := l_counter st |}.
Definition with_ret (st : lstate) (b : bundle) : lstate :=
  {| l_ret := b; l_state := l_state st; l_spend := l_spend st; l_max_cost := l_max_cost st;
     l_countdown := l_countdown st; l_counter := l_counter st |}.
Definition with_state (st : lstate) (p : pstate) : lstate :=
  {| l_ret := l_ret st; l_state := p; l_spend := l_spend st; l_max_cost := l_max_cost st;
     l_countdown := l_countdown st; l_counter := l_counter st |}.

Definition decrement (fl : cflags) (st : lstate) : res lstate :=
  if f_cost_conds fl then Ok st
  else if l_countdown st =? 0 then Err TooManyAnnouncements
  else Ok {| l_ret := l_ret st; l_state := l_state st; l_spend := l_spend st; l_max_cost := l_max_cost st;
             l_countdown := l_countdown st - 1; l_counter := l_counter st |}.

Definition ps_with (p : pstate) ac ap asc asp msgs acs acp ae ane pk : pstate :=
  {| s_announce_coin := ac; s_announce_puzzle := ap; s_assert_coin := asc; s_assert_puzzle := asp;
     s_messages := msgs; s_assert_concurrent_spend := acs; s_assert_concurrent_puzzle := acp;
     s_spent_coins := s_spent_coins p; s_spent_puzzles := s_spent_puzzles p;
     s_assert_ephemeral := ae; s_assert_not_ephemeral := ane; s_pkm_pairs_rev := pk |}.

Definition ps_upd (p : pstate) (f : pstate -> pstate) := f p.

(* assert_not_ephemeral(&mut spend.flags, state, idx) *)
Definition mark_not_ephemeral (st : lstate) : lstate :=
  let s := l_spend st in
  if sp_has_relative s then st
  else
    let p := l_state st in
    let idx := length (b_spends_rev (l_ret st)) in
    let p' := ps_with p (s_announce_coin p) (s_announce_puzzle p) (s_assert_coin p) (s_assert_puzzle p)
                      (s_messages p) (s_assert_concurrent_spend p) (s_assert_concurrent_puzzle p)
                      (s_assert_ephemeral p) (idx :: s_assert_not_ephemeral p) (s_pkm_pairs_rev p) in
    with_state (with_spend st (sp_set_flags s (sp_ff s) (sp_dedup s) true)) p'.

Definition agg_sig_suffix (k : consts) (op : N) (s : spend) : bytes :=
  if op =? AGG_SIG_ME then sp_coin_id s ++ c_me k
  else if op =? AGG_SIG_PARENT then sp_parent s ++ c_parent k
  else if op =? AGG_SIG_PUZZLE then sp_ph s ++ c_puzzle k
  else if op =? AGG_SIG_AMOUNT then u64_to_bytes (sp_amount s) ++ c_amount k
  else if op =? AGG_SIG_PUZZLE_AMOUNT then sp_ph s ++ u64_to_bytes (sp_amount s) ++ c_puzzle_amount k
  else if op =? AGG_SIG_PARENT_AMOUNT then sp_parent s ++ u64_to_bytes (sp_amount s) ++ c_parent_amount k
  else if op =? AGG_SIG_PARENT_PUZZLE then sp_parent s ++ sp_ph s ++ c_parent_puzzle k
  else [].

Section WithOracles.
  Variable valid_key : bytes -> bool.    (* PublicKey::from_bytes succeeds and the key is not infinity *)
  Variable H : bytes -> bytes.           (* SHA-256 *)
  Variable K : consts.
  Variable fl : cflags.
  Variable V : visitor.

  Definition push_pair (st : lstate) (pk msg : bytes) : lstate :=
    if f_dont_validate fl then st
    else
      let p := l_state st in
      with_state st (ps_with p (s_announce_coin p) (s_announce_puzzle p) (s_assert_coin p) (s_assert_puzzle p)
                             (s_messages p) (s_assert_concurrent_spend p) (s_assert_concurrent_puzzle p)
                             (s_assert_ephemeral p) (s_assert_not_ephemeral p) ((pk, msg) :: s_pkm_pairs_rev p)).

  (* the big match of parse_conditions, applied after the visitor saw the condition *)
  Definition apply_condition (st : lstate) (cva : condition) : res lstate :=
    let ret := l_ret st in let s := l_spend st in let p := l_state st in
    match cva with
    | CReserveFee limit =>
        let sum := b_reserve_fee ret + limit in
        if 2 ^ 64 <=? sum then Err ReserveFeeConditionFailed
        else Ok (with_ret st (b_set_abs ret sum (b_height_absolute ret) (b_seconds_absolute ret)
                                        (b_before_height_absolute ret) (b_before_seconds_absolute ret)))
    | CCreateCoin ph amount hint =>
        if existsb (fun c => coin_eq c ph amount) (sp_create_coin s) then Err DuplicateOutput
        else
          let s' := sp_set_lists s (sp_create_coin s ++ [{| nc_ph := ph; nc_amount := amount; nc_hint := hint |}]) (sp_agg_sig s) in
          let ret' := b_with ret (b_spends_rev ret) (b_reserve_fee ret) (b_height_absolute ret) (b_seconds_absolute ret)
                             (b_agg_sig_unsafe ret) (b_before_height_absolute ret) (b_before_seconds_absolute ret)
                             (b_cond_cost ret) (b_removal ret) (b_addition ret + amount) in
          Ok (with_ret (with_spend st s') ret')
    | CAssertSecondsRelative v =>
        let s' := sp_set_locks s (sp_height_relative s) (omax (sp_seconds_relative s) v) (sp_before_height_relative s)
                               (sp_before_seconds_relative s) (sp_birth_height s) (sp_birth_seconds s) in
        match sp_before_seconds_relative s with
        | Some bs => if bs <=? v then Err ImpossibleSecondsRelativeConstraints else Ok (mark_not_ephemeral (with_spend st s'))
        | None => Ok (mark_not_ephemeral (with_spend st s'))
        end
    | CAssertSecondsAbsolute v =>
        Ok (with_ret st (b_set_abs ret (b_reserve_fee ret) (b_height_absolute ret) (N.max (b_seconds_absolute ret) v)
                                   (b_before_height_absolute ret) (b_before_seconds_absolute ret)))
    | CAssertHeightRelative h =>
        let s' := sp_set_locks s (omax (sp_height_relative s) h) (sp_seconds_relative s) (sp_before_height_relative s)
                               (sp_before_seconds_relative s) (sp_birth_height s) (sp_birth_seconds s) in
        match sp_before_height_relative s with
        | Some bs => if bs <=? h then Err ImpossibleHeightRelativeConstraints else Ok (mark_not_ephemeral (with_spend st s'))
        | None => Ok (mark_not_ephemeral (with_spend st s'))
        end
    | CAssertHeightAbsolute h =>
        Ok (with_ret st (b_set_abs ret (b_reserve_fee ret) (N.max (b_height_absolute ret) h) (b_seconds_absolute ret)
                                   (b_before_height_absolute ret) (b_before_seconds_absolute ret)))
    | CAssertBeforeSecondsRelative v =>
        let s' := sp_set_locks s (sp_height_relative s) (sp_seconds_relative s) (sp_before_height_relative s)
                               (omin (sp_before_seconds_relative s) v) (sp_birth_height s) (sp_birth_seconds s) in
        match sp_seconds_relative s with
        | Some sr => if v <=? sr then Err ImpossibleSecondsRelativeConstraints else Ok (mark_not_ephemeral (with_spend st s'))
        | None => Ok (mark_not_ephemeral (with_spend st s'))
        end
    | CAssertBeforeSecondsAbsolute v =>
        Ok (with_ret st (b_set_abs ret (b_reserve_fee ret) (b_height_absolute ret) (b_seconds_absolute ret)
                                   (b_before_height_absolute ret) (omin (b_before_seconds_absolute ret) v)))
    | CAssertBeforeHeightRelative h =>
        let s' := sp_set_locks s (sp_height_relative s) (sp_seconds_relative s) (omin (sp_before_height_relative s) h)
                               (sp_before_seconds_relative s) (sp_birth_height s) (sp_birth_seconds s) in
        match sp_height_relative s with
        | Some hr => if h <=? hr then Err ImpossibleHeightRelativeConstraints else Ok (mark_not_ephemeral (with_spend st s'))
        | None => Ok (mark_not_ephemeral (with_spend st s'))
        end
    | CAssertBeforeHeightAbsolute h =>
        Ok (with_ret st (b_set_abs ret (b_reserve_fee ret) (b_height_absolute ret) (b_seconds_absolute ret)
                                   (omin (b_before_height_absolute ret) h) (b_before_seconds_absolute ret)))
    | CAssertMyCoinId id => if bytes_eqb id (sp_coin_id s) then Ok st else Err AssertMyCoinIdFailed
    | CAssertMyAmount amount => if amount =? sp_amount s then Ok st else Err AssertMyAmountFailed
    | CAssertMyBirthSeconds v =>
        match sp_birth_seconds s with
        | Some e => if e =? v then
                      Ok (mark_not_ephemeral (with_spend st (sp_set_locks s (sp_height_relative s) (sp_seconds_relative s)
                           (sp_before_height_relative s) (sp_before_seconds_relative s) (sp_birth_height s) (Some v))))
                    else Err AssertMyBirthSecondsFailed
        | None => Ok (mark_not_ephemeral (with_spend st (sp_set_locks s (sp_height_relative s) (sp_seconds_relative s)
                           (sp_before_height_relative s) (sp_before_seconds_relative s) (sp_birth_height s) (Some v))))
        end
    | CAssertMyBirthHeight h =>
        match sp_birth_height s with
        | Some e => if e =? h then
                      Ok (mark_not_ephemeral (with_spend st (sp_set_locks s (sp_height_relative s) (sp_seconds_relative s)
                           (sp_before_height_relative s) (sp_before_seconds_relative s) (Some h) (sp_birth_seconds s))))
                    else Err AssertMyBirthHeightFailed
        | None => Ok (mark_not_ephemeral (with_spend st (sp_set_locks s (sp_height_relative s) (sp_seconds_relative s)
                           (sp_before_height_relative s) (sp_before_seconds_relative s) (Some h) (sp_birth_seconds s))))
        end
    | CAssertEphemeral =>
        let idx := length (b_spends_rev ret) in
        Ok (with_state st (ps_with p (s_announce_coin p) (s_announce_puzzle p) (s_assert_coin p) (s_assert_puzzle p)
                                   (s_messages p) (s_assert_concurrent_spend p) (s_assert_concurrent_puzzle p)
                                   (idx :: s_assert_ephemeral p) (s_assert_not_ephemeral p) (s_pkm_pairs_rev p)))
    | CAssertMyParentId id => if bytes_eqb id (sp_parent s) then Ok st else Err AssertMyParentIdFailed
    | CAssertMyPuzzlehash h => if bytes_eqb h (sp_ph s) then Ok st else Err AssertMyPuzzleHashFailed
    | CCreateCoinAnnouncement msg =>
        st1 <- decrement fl st ;;
        let p := l_state st1 in
        Ok (with_state st1 (ps_with p ((sp_coin_id s, msg) :: s_announce_coin p) (s_announce_puzzle p) (s_assert_coin p)
                                    (s_assert_puzzle p) (s_messages p) (s_assert_concurrent_spend p)
                                    (s_assert_concurrent_puzzle p) (s_assert_ephemeral p) (s_assert_not_ephemeral p) (s_pkm_pairs_rev p)))
    | CCreatePuzzleAnnouncement msg =>
        st1 <- decrement fl st ;;
        let p := l_state st1 in
        Ok (with_state st1 (ps_with p (s_announce_coin p) ((sp_ph s, msg) :: s_announce_puzzle p) (s_assert_coin p)
                                    (s_assert_puzzle p) (s_messages p) (s_assert_concurrent_spend p)
                                    (s_assert_concurrent_puzzle p) (s_assert_ephemeral p) (s_assert_not_ephemeral p) (s_pkm_pairs_rev p)))
    | CAssertCoinAnnouncement id =>
        st1 <- decrement fl st ;;
        let p := l_state st1 in
        Ok (with_state st1 (ps_with p (s_announce_coin p) (s_announce_puzzle p) (id :: s_assert_coin p)
                                    (s_assert_puzzle p) (s_messages p) (s_assert_concurrent_spend p)
                                    (s_assert_concurrent_puzzle p) (s_assert_ephemeral p) (s_assert_not_ephemeral p) (s_pkm_pairs_rev p)))
    | CAssertPuzzleAnnouncement id =>
        st1 <- decrement fl st ;;
        let p := l_state st1 in
        Ok (with_state st1 (ps_with p (s_announce_coin p) (s_announce_puzzle p) (s_assert_coin p)
                                    (id :: s_assert_puzzle p) (s_messages p) (s_assert_concurrent_spend p)
                                    (s_assert_concurrent_puzzle p) (s_assert_ephemeral p) (s_assert_not_ephemeral p) (s_pkm_pairs_rev p)))
    | CAssertConcurrentSpend id =>
        st1 <- decrement fl st ;;
        let p := l_state st1 in
        Ok (with_state st1 (ps_with p (s_announce_coin p) (s_announce_puzzle p) (s_assert_coin p)
                                    (s_assert_puzzle p) (s_messages p) (id :: s_assert_concurrent_spend p)
                                    (s_assert_concurrent_puzzle p) (s_assert_ephemeral p) (s_assert_not_ephemeral p) (s_pkm_pairs_rev p)))
    | CAssertConcurrentPuzzle id =>
        st1 <- decrement fl st ;;
        let p := l_state st1 in
        Ok (with_state st1 (ps_with p (s_announce_coin p) (s_announce_puzzle p) (s_assert_coin p)
                                    (s_assert_puzzle p) (s_messages p) (s_assert_concurrent_spend p)
                                    (id :: s_assert_concurrent_puzzle p) (s_assert_ephemeral p) (s_assert_not_ephemeral p) (s_pkm_pairs_rev p)))
    | CAggSig op pk msg =>
        if op =? AGG_SIG_UNSAFE then
          _ <- check_agg_sig_unsafe_message K msg ;;
          if valid_key pk then
            let ret' := b_with ret (b_spends_rev ret) (b_reserve_fee ret) (b_height_absolute ret) (b_seconds_absolute ret)
                               (b_agg_sig_unsafe ret ++ [(pk, msg)]) (b_before_height_absolute ret)
                               (b_before_seconds_absolute ret) (b_cond_cost ret) (b_removal ret) (b_addition ret) in
            Ok (push_pair (with_ret st ret') pk msg)
          else Err InvalidPublicKey
        else
          if valid_key pk then
            let s' := sp_set_lists s (sp_create_coin s) (sp_agg_sig s ++ [(op, pk, msg)]) in
            Ok (push_pair (with_spend st s') pk (msg ++ agg_sig_suffix K op s))
          else Err InvalidPublicKey
    | CSoftfork cost => charge st cost
    | CSendMessage src_mode dst msg =>
        st1 <- decrement fl st ;;
        src <- spend_id_from_self src_mode (sp_parent s) (sp_ph s) (sp_amount s) (sp_coin_id s) ;;
        let p := l_state st1 in
        Ok (with_state st1 (ps_with p (s_announce_coin p) (s_announce_puzzle p) (s_assert_coin p) (s_assert_puzzle p)
                                    ({| m_src := src; m_dst := dst; m_msg := msg; m_counter := 1%Z |} :: s_messages p)
                                    (s_assert_concurrent_spend p) (s_assert_concurrent_puzzle p)
                                    (s_assert_ephemeral p) (s_assert_not_ephemeral p) (s_pkm_pairs_rev p)))
    | CReceiveMessage src dst_mode msg =>
        st1 <- decrement fl st ;;
        dst <- spend_id_from_self dst_mode (sp_parent s) (sp_ph s) (sp_amount s) (sp_coin_id s) ;;
        let p := l_state st1 in
        Ok (with_state st1 (ps_with p (s_announce_coin p) (s_announce_puzzle p) (s_assert_coin p) (s_assert_puzzle p)
                                    ({| m_src := src; m_dst := dst; m_msg := msg; m_counter := (-1)%Z |} :: s_messages p)
                                    (s_assert_concurrent_spend p) (s_assert_concurrent_puzzle p)
                                    (s_assert_ephemeral p) (s_assert_not_ephemeral p) (s_pkm_pairs_rev p)))
    | CSkipRelativeCondition => Ok (mark_not_ephemeral st)
    | CSkip => Ok st
    end.

  (* cost pre-charged by opcode before parse_args *)
  Definition precharge (st : lstate) (op : N) : res lstate :=
    if op =? CREATE_COIN then charge st (if f_cost_conds fl then NEW_CREATE_COIN_COST else CREATE_COIN_COST)
    else if is_agg_sig op then charge st AGG_SIG_COST
    else if (op =? CREATE_COIN_ANNOUNCEMENT) || (op =? ASSERT_COIN_ANNOUNCEMENT) || (op =? CREATE_PUZZLE_ANNOUNCEMENT)
            || (op =? ASSERT_PUZZLE_ANNOUNCEMENT) || (op =? ASSERT_CONCURRENT_SPEND) || (op =? ASSERT_CONCURRENT_PUZZLE)
            || (op =? SEND_MESSAGE) || (op =? RECEIVE_MESSAGE)
    then (if f_cost_conds fl then charge st MESSAGE_CONDITION_COST else Ok st)
    else (if f_cost_conds fl then charge st GENERIC_CONDITION_COST else Ok st).

  Definition visit (st : lstate) (cva : condition) : lstate :=
    match V with
    | VEmpty => st
    | VMempool =>
        let s := l_spend st in
        let '(ff, dd) := mempool_condition (l_counter st) (sp_ff s) (sp_dedup s) cva in
        {| l_ret := l_ret st; l_state := l_state st; l_spend := sp_set_flags s ff dd (sp_has_relative s);
           l_max_cost := l_max_cost st; l_countdown := l_countdown st; l_counter := l_counter st + 1 |}
    end.

  (* one iteration of the while loop of parse_conditions *)
  Definition process_condition (c : sexp) (st : lstate) : res lstate :=
    f <- first c ;;
    match parse_opcode f with
    | None =>
        if f_no_unknown fl then Err InvalidConditionOpcode
        else if f_cost_conds fl then charge st GENERIC_CONDITION_COST
        else Ok st
    | Some op =>
        st1 <- precharge st op ;;
        c1 <- rest c ;;
        cva <- parse_args fl c1 op ;;
        apply_condition (visit st1 cva) cva
    end.

  Fixpoint conditions_loop (iter : sexp) (st : lstate) : res lstate :=
    match iter with
    | Pair c nxt => st' <- process_condition c st ;; conditions_loop nxt st'
    | Atom [] => Ok st
    | Atom _ => Err InvalidCondition
    end.

  Definition post_spend (s : spend) : spend :=
    match V with
    | VEmpty => s
    | VMempool =>
        let ff := sp_ff s && existsb (fun c => bytes_eqb (sp_ph s) (nc_ph c) && (sp_amount s =? nc_amount c)) (sp_create_coin s) in
        let additions := fold_left (fun acc c => acc + nc_amount c) (sp_create_coin s) 0 in
        let dd := sp_dedup s && negb (additions <? sp_amount s) in
        sp_set_flags s ff dd (sp_has_relative s)
    end.

  (* process_single_spend + parse_conditions *)
  Definition process_single_spend (ret : bundle) (state : pstate) (parent_id puzzle_hash amount conditions : sexp)
             (max_cost clvm_cost : N) : res (bundle * pstate * N) :=
    parent <- sanitize_hash parent_id 32 InvalidParentId ;;
    ph <- sanitize_hash puzzle_hash 32 InvalidPuzzleHash ;;
    my_amount <- parse_amount amount InvalidCoinAmount ;;
    amount_buf <- atom_of amount InvalidCoinAmount ;;
    let coin_id := H (parent ++ ph ++ amount_buf) in
    match lookup_idx coin_id (s_spent_coins state) with
    | Some _ => Err DoubleSpend
    | None =>
        let idx := length (b_spends_rev ret) in
        let state1 :=
          {| s_announce_coin := s_announce_coin state; s_announce_puzzle := s_announce_puzzle state;
             s_assert_coin := s_assert_coin state; s_assert_puzzle := s_assert_puzzle state;
             s_messages := s_messages state; s_assert_concurrent_spend := s_assert_concurrent_spend state;
             s_assert_concurrent_puzzle := s_assert_concurrent_puzzle state;
             s_spent_coins := (coin_id, idx) :: s_spent_coins state;
             s_spent_puzzles := ph :: s_spent_puzzles state;
             s_assert_ephemeral := s_assert_ephemeral state; s_assert_not_ephemeral := s_assert_not_ephemeral state;
             s_pkm_pairs_rev := s_pkm_pairs_rev state |} in
        let ret1 := b_with ret (b_spends_rev ret) (b_reserve_fee ret) (b_height_absolute ret) (b_seconds_absolute ret)
                           (b_agg_sig_unsafe ret) (b_before_height_absolute ret) (b_before_seconds_absolute ret)
                           (b_cond_cost ret) (b_removal ret + my_amount) (b_addition ret) in
        let sp0 := new_spend parent my_amount ph coin_id clvm_cost in
        let st0 := {| l_ret := ret1; l_state := state1; l_spend := sp0; l_max_cost := max_cost;
                      l_countdown := ANNOUNCE_LIMIT; l_counter := 0 |} in
        st1 <- (if f_cost_conds fl then charge st0 SPEND_COST else Ok st0) ;;
        let sp1 := match V with
                   | VEmpty => l_spend st1
                   | VMempool => sp_set_flags (l_spend st1) (N.odd my_amount) true (sp_has_relative (l_spend st1))
                   end in
        st2 <- conditions_loop conditions (with_spend st1 sp1) ;;
        let sp2 := post_spend (l_spend st2) in
        let r := l_ret st2 in
        let ret2 := b_with r (sp2 :: b_spends_rev r) (b_reserve_fee r) (b_height_absolute r) (b_seconds_absolute r)
                           (b_agg_sig_unsafe r) (b_before_height_absolute r) (b_before_seconds_absolute r)
                           (b_cond_cost r) (b_removal r) (b_addition r) in
        Ok (ret2, l_state st2, l_max_cost st2)
    end.

  Definition parse_single_spend (sp : sexp) : res (sexp * sexp * sexp * sexp) :=
    parent_id <- first sp ;; s1 <- rest sp ;;
    puzzle_hash <- first s1 ;; s2 <- rest s1 ;;
    amount <- first s2 ;; s3 <- rest s2 ;;
    cond <- first s3 ;;
    Ok (parent_id, puzzle_hash, amount, cond).

  Fixpoint spends_loop (iter : sexp) (ret : bundle) (state : pstate) (cost_left : N) (spends_left : option N)
           (clvm_cost : N) : res (bundle * pstate * N) :=
    match iter with
    | Pair sp nxt =>
        match spends_left with
        | Some 0 => Err TooManySpends
        | _ =>
            '(parent_id, puzzle_hash, amount, conds) <- parse_single_spend sp ;;
            '(ret1, state1, cost1) <- process_single_spend ret state parent_id puzzle_hash amount conds cost_left clvm_cost ;;
            spends_loop nxt ret1 state1 cost1 (option_map N.pred spends_left) clvm_cost
        end
    | Atom [] => Ok (ret, state, cost_left)
    | Atom _ => Err InvalidCondition
    end.

  (* ---------- bundle-level validation ---------- *)
  Definition is_ephemeral (spends : list spend) (spent : list (bytes * nat)) (idx : nat) : bool :=
    match nth_error spends idx with
    | None => false                                    (* unreachable: indices come from the same vector *)
    | Some s =>
        match lookup_idx (sp_parent s) spent with
        | None => false
        | Some pidx =>
            match nth_error spends pidx with
            | None => false
            | Some ps => existsb (fun c => coin_eq c (sp_ph s) (sp_amount s)) (sp_create_coin ps)
            end
        end
    end.

  Definition message_key (m : message) : bytes := spend_id_key (m_src m) ++ spend_id_key (m_dst m) ++ m_msg m.

  Fixpoint add_count (k : bytes) (d : Z) (l : list (bytes * Z)) : list (bytes * Z) :=
    match l with
    | [] => [(k, d)]
    | (k', v) :: r => if bytes_eqb k k' then (k', (v + d)%Z) :: r else (k', v) :: add_count k d r
    end.

  Definition validate_conditions (ret : bundle) (spends : list spend) (state : pstate) : res unit :=
    if b_removal ret <? b_addition ret then Err MintingCoin
    else if b_removal ret - b_addition ret <? b_reserve_fee ret then Err ReserveFeeConditionFailed
    else if match b_before_height_absolute ret with Some bh => bh <=? b_height_absolute ret | None => false end
    then Err ImpossibleHeightAbsoluteConstraints
    else if match b_before_seconds_absolute ret with Some bs => bs <=? b_seconds_absolute ret | None => false end
    then Err ImpossibleSecondsAbsoluteConstraints
    else if negb (forallb (fun id => match lookup_idx id (s_spent_coins state) with Some _ => true | None => false end)
                          (s_assert_concurrent_spend state))
    then Err AssertConcurrentSpendFailed
    else if negb (forallb (fun ph => mem_bytes ph (s_spent_puzzles state)) (s_assert_concurrent_puzzle state))
    then Err AssertConcurrentPuzzleFailed
    else
      let coin_ann := map (fun cm => H (fst cm ++ snd cm)) (s_announce_coin state) in
      if negb (forallb (fun a => mem_bytes a coin_ann) (s_assert_coin state)) then Err AssertCoinAnnouncementFailed
      else if negb (forallb (is_ephemeral spends (s_spent_coins state)) (s_assert_ephemeral state))
      then Err AssertEphemeralFailed
      else if existsb (is_ephemeral spends (s_spent_coins state)) (s_assert_not_ephemeral state)
      then Err EphemeralRelativeCondition
      else
        let puz_ann := map (fun pm => H (fst pm ++ snd pm)) (s_announce_puzzle state) in
        if negb (forallb (fun a => mem_bytes a puz_ann) (s_assert_puzzle state)) then Err AssertPuzzleAnnouncementFailed
        else
          let counts := fold_left (fun acc m => add_count (message_key m) (m_counter m) acc) (s_messages state) [] in
          if negb (forallb (fun kv => Z.eqb (snd kv) 0) counts) then Err MessageNotSentOrReceived
          else Ok tt.

  (* MempoolVisitor::post_process: clear ELIGIBLE_FOR_FF where a commitment to the coin id exists *)
  Definition clear_ff (s : spend) : spend := sp_set_flags s false (sp_dedup s) (sp_has_relative s).

  Definition post_process (spends : list spend) (state : pstate) : list spend :=
    match V with
    | VEmpty => spends
    | VMempool =>
        let referenced :=
          fold_left (fun acc id => match lookup_idx id (s_spent_coins state) with Some i => i :: acc | None => acc end)
                    (s_assert_concurrent_spend state) [] in
        let step1 := map (fun is => let '(i, s) := is in if existsb (Nat.eqb i) referenced then clear_ff s else s)
                         (combine (seq 0 (length spends)) spends) in
        map (fun s =>
               if sp_ff s &&
                  existsb (fun cc => match lookup_idx (H (sp_coin_id s ++ nc_ph cc ++ coin_amount_bytes (nc_amount cc)))
                                                      (s_spent_coins state) with Some _ => true | None => false end)
                          (sp_create_coin s)
               then clear_ff s else s) step1
    end.

  (* parse_spends up to (not including) the signature check; returns the summary and the
     (key, message) pairs the aggregate signature must verify *)
  Definition parse_spends (spends : sexp) (max_cost clvm_cost : N) : res (bundle * list spend * list (bytes * bytes)) :=
    iter <- first spends ;;
    '(ret, state, cost_left) <-
      spends_loop iter empty_bundle empty_state max_cost
                  (if f_limit_spends fl then Some MAX_SPENDS_PER_BLOCK else None) clvm_cost ;;
    let spends1 := post_process (fast_rev (b_spends_rev ret)) state in
    _ <- validate_conditions ret spends1 state ;;
    let ret' := {| b_spends_rev := b_spends_rev ret; b_reserve_fee := b_reserve_fee ret;
                   b_height_absolute := b_height_absolute ret; b_seconds_absolute := b_seconds_absolute ret;
                   b_agg_sig_unsafe := b_agg_sig_unsafe ret; b_before_height_absolute := b_before_height_absolute ret;
                   b_before_seconds_absolute := b_before_seconds_absolute ret;
                   b_cost := max_cost - cost_left; b_exec_cost := b_exec_cost ret; b_cond_cost := b_cond_cost ret;
                   b_removal := b_removal ret; b_addition := b_addition ret |} in
    Ok (ret', spends1, fast_rev (s_pkm_pairs_rev state)).
End WithOracles.
