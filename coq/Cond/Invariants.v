(* Cond/Invariants.v — value conservation, no double spends, no duplicate outputs, coin ids
   (property C02), proved on the mirror by an invariant over the spend loop. *)
From ChiaV.Base Require Import Bytes.
From ChiaV.Clvm Require Import Sexp Ints IntsProofs.
From ChiaV.Gen Require Import Opcodes Ladders.
From ChiaV.Cond Require Import Model.
From Coq Require Import ZifyBool ZifyNat ZifyN.
Open Scope N_scope.

Definition sumN (l : list N) : N := fold_right N.add 0 l.
Definition created (s : spend) : N := sumN (map nc_amount (sp_create_coin s)).
Definition coin_key (c : new_coin) : bytes * N := (nc_ph c, nc_amount c).

Lemma sumN_app a b : sumN (a ++ b) = sumN a + sumN b.
Proof. unfold sumN. induction a as [|x a IH]; cbn [app fold_right]; lia. Qed.

Lemma NoDup_snoc {A} (l : list A) (x : A) : NoDup l -> ~ In x l -> NoDup (l ++ [x]).
Proof.
  induction l as [|y l IH]; intros Hn Hx; cbn [app].
  - constructor; [intros []|constructor].
  - inversion Hn as [|? ? Hy Hl]; subst. constructor.
    + intros Hin. apply in_app_or in Hin. destruct Hin as [Hin|[->|[]]]; [contradiction|]. apply Hx. now left.
    + apply IH; [assumption|]. intros Hin. apply Hx. now right.
Qed.

(* the part of the loop state the C02 invariants talk about *)
Record core := {
  k_rem : N; k_add : N; k_done : list spend; k_cc : list new_coin;
  k_amt : N; k_par : bytes; k_ph : bytes; k_id : bytes; k_spent : list (bytes * nat)
}.

Definition core_of (st : lstate) : core :=
  {| k_rem := b_removal (l_ret st); k_add := b_addition (l_ret st); k_done := b_spends_rev (l_ret st);
     k_cc := sp_create_coin (l_spend st); k_amt := sp_amount (l_spend st); k_par := sp_parent (l_spend st);
     k_ph := sp_ph (l_spend st); k_id := sp_coin_id (l_spend st); k_spent := s_spent_coins (l_state st) |}.

Definition add_coin (k : core) (c : new_coin) : core :=
  {| k_rem := k_rem k; k_add := k_add k + nc_amount c; k_done := k_done k; k_cc := k_cc k ++ [c];
     k_amt := k_amt k; k_par := k_par k; k_ph := k_ph k; k_id := k_id k; k_spent := k_spent k |}.

(* one condition either leaves the core alone or appends one new, non-duplicate coin *)
Definition cstep (k k' : core) : Prop :=
  k' = k \/ exists c, existsb (fun x => coin_eq x (nc_ph c) (nc_amount c)) (k_cc k) = false /\ k' = add_coin k c.

Ltac break :=
  repeat match goal with
  | H : bind ?r _ = Ok _ |- _ => let E := fresh "E" in destruct r eqn:E; cbn [bind] in H; [|discriminate H]
  | H : (if ?c then _ else _) = Ok _ |- _ => let E := fresh "E" in destruct c eqn:E
  | H : match ?x with _ => _ end = Ok _ |- _ => let E := fresh "E" in destruct x eqn:E
  | H : Err _ = Ok _ |- _ => discriminate H
  | H : Ok _ = Ok _ |- _ => inversion H; subst; clear H
  end.

Lemma charge_core st c st' : charge st c = Ok st' -> core_of st' = core_of st.
Proof. unfold charge. intros H. break. reflexivity. Qed.

Lemma decrement_core fl st st' : decrement fl st = Ok st' -> core_of st' = core_of st.
Proof. unfold decrement. intros H. break; reflexivity. Qed.

Lemma mark_core st : core_of (mark_not_ephemeral st) = core_of st.
Proof. unfold mark_not_ephemeral. destruct (sp_has_relative (l_spend st)); reflexivity. Qed.

Lemma push_pair_core fl st pk msg : core_of (push_pair fl st pk msg) = core_of st.
Proof. unfold push_pair. destruct (f_dont_validate fl); reflexivity. Qed.

Lemma visit_core V st cva : core_of (visit V st cva) = core_of st.
Proof.
  unfold visit. destruct V; [reflexivity|].
  destruct (mempool_condition _ _ _ _) as [ff dd]. reflexivity.
Qed.

Lemma precharge_core fl st op st' : precharge fl st op = Ok st' -> core_of st' = core_of st.
Proof.
  unfold precharge. intros H.
  repeat match goal with
  | H : (if ?c then _ else _) = Ok _ |- _ => destruct c
  end; try (apply charge_core in H; exact H); try (inversion H; reflexivity).
Qed.

Lemma apply_condition_cstep vk K fl st cva st' :
  apply_condition vk K fl st cva = Ok st' -> cstep (core_of st) (core_of st').
Proof.
  intros H. destruct cva; cbn [apply_condition] in H;
    try (left; break; rewrite ?mark_core, ?push_pair_core; reflexivity).
  - (* create coin *)
    right. break.
    exists {| nc_ph := ph; nc_amount := amount; nc_hint := hint |}. split; [exact E|reflexivity].
  - (* create coin announcement *) left. break. apply decrement_core in E. rewrite <- E. reflexivity.
  - left. break. apply decrement_core in E. rewrite <- E. reflexivity.
  - left. break. apply decrement_core in E. rewrite <- E. reflexivity.
  - left. break. apply decrement_core in E. rewrite <- E. reflexivity.
  - left. break. apply decrement_core in E. rewrite <- E. reflexivity.
  - left. break. apply decrement_core in E. rewrite <- E. reflexivity.
  - (* softfork *) left. now apply charge_core in H.
  - left. break. apply decrement_core in E. rewrite <- E. reflexivity.
  - left. break. apply decrement_core in E. rewrite <- E. reflexivity.
Qed.

Lemma process_condition_cstep vk K fl V c st st' :
  process_condition vk K fl V c st = Ok st' -> cstep (core_of st) (core_of st').
Proof.
  unfold process_condition. intros H. break.
  - apply apply_condition_cstep in H. rewrite visit_core in H.
    apply precharge_core in E1. rewrite E1 in H. exact H.
  - left. now apply charge_core in H.
  - left. reflexivity.
Qed.

(* invariant of the inner loop *)
Definition cc_nodup (l : list new_coin) : Prop := NoDup (map coin_key l).

Record KInv (rem0 add0 : N) (k0 k : core) : Prop := {
  ki_rem : k_rem k = k_rem k0;
  ki_add : k_add k = add0 + sumN (map nc_amount (k_cc k));
  ki_done : k_done k = k_done k0;
  ki_nodup : cc_nodup (k_cc k);
  ki_amt : k_amt k = k_amt k0; ki_par : k_par k = k_par k0; ki_ph : k_ph k = k_ph k0; ki_id : k_id k = k_id k0;
  ki_spent : k_spent k = k_spent k0
}.

Lemma existsb_coin_eq_false l c :
  existsb (fun x => coin_eq x (nc_ph c) (nc_amount c)) l = false -> ~ In (coin_key c) (map coin_key l).
Proof.
  intros Hf Hin. apply in_map_iff in Hin. destruct Hin as [x [Hk Hx]].
  assert (existsb (fun x => coin_eq x (nc_ph c) (nc_amount c)) l = true).
  { apply existsb_exists. exists x. split; [exact Hx|].
    unfold coin_key in Hk. inversion Hk as [[Hp Ha]]. unfold coin_eq. rewrite Ha, Hp.
    rewrite N.eqb_refl, bytes_eqb_refl. reflexivity. }
  congruence.
Qed.

Lemma cstep_inv rem0 add0 k0 k k' : KInv rem0 add0 k0 k -> cstep k k' -> KInv rem0 add0 k0 k'.
Proof.
  intros I [->|[c [Hnd ->]]]; [exact I|].
  destruct I. constructor; cbn [add_coin k_rem k_add k_done k_cc k_amt k_par k_ph k_id k_spent]; try assumption.
  - rewrite map_app, sumN_app. cbn [map sumN fold_right]. lia.
  - unfold cc_nodup in *. rewrite map_app. cbn [map].
    apply NoDup_snoc; [assumption|]. now apply existsb_coin_eq_false.
Qed.

Lemma conditions_loop_inv vk K fl V iter : forall st st' rem0 add0 k0,
  conditions_loop vk K fl V iter st = Ok st' ->
  KInv rem0 add0 k0 (core_of st) -> KInv rem0 add0 k0 (core_of st').
Proof.
  induction iter as [b|c _ nxt IH]; intros st st' rem0 add0 k0 H I.
  - cbn [conditions_loop] in H. destruct b; [inversion H; subst; exact I|discriminate].
  - cbn [conditions_loop] in H. break.
    eapply IH; [exact H|]. eapply cstep_inv; [exact I|]. eapply process_condition_cstep; exact E.
Qed.

(* ---------- the spend loop ---------- *)
Section Outer.
  Variable vk : bytes -> bool.
  Variable H : bytes -> bytes.
  Variable K : consts.
  Variable fl : cflags.
  Variable V : visitor.

  Definition spend_ok (s : spend) : Prop :=
    cc_nodup (sp_create_coin s) /\
    sp_coin_id s = H (sp_parent s ++ sp_ph s ++ canon_n (sp_amount s)) /\
    length (sp_parent s) = 32%nat /\ length (sp_ph s) = 32%nat /\ sp_amount s < 2 ^ 64.

  Record SInv (ret : bundle) (state : pstate) : Prop := {
    si_rem : b_removal ret = sumN (map sp_amount (b_spends_rev ret));
    si_add : b_addition ret = sumN (map created (b_spends_rev ret));
    si_spent : map fst (s_spent_coins state) = map sp_coin_id (b_spends_rev ret);
    si_nodup : NoDup (map sp_coin_id (b_spends_rev ret));
    si_each : Forall spend_ok (b_spends_rev ret)
  }.

  Lemma lookup_idx_none x l : lookup_idx x l = None -> ~ In x (map fst l).
  Proof.
    induction l as [|[k i] l IH]; cbn [lookup_idx map fst In]; [tauto|].
    destruct (bytes_eqb_spec x k) as [->|Hne]; [discriminate|].
    intros Hn [Heq|Hin]; [congruence|now apply IH].
  Qed.

  Lemma sanitize_hash_len t n e b : sanitize_hash t n e = Ok b -> length b = n.
  Proof.
    unfold sanitize_hash, atom_of. destruct t; cbn [bind]; [|discriminate].
    destruct (Nat.eqb_spec (length b0) n); [intros [= <-]; assumption|discriminate].
  Qed.

  Lemma parse_amount_canon t e e' n buf :
    parse_amount t e = Ok n -> atom_of t e' = Ok buf -> buf = canon_n n /\ n < 2 ^ 64.
  Proof.
    unfold parse_amount, sanitize_uint_node, atom_of. destruct t as [b|]; cbn [bind]; [|discriminate].
    intros Hs [= <-]. destruct (sanitize_uint b 8) eqn:E; cbn [bind] in Hs; try discriminate.
    inversion Hs; subst. apply sanitize_uint_ok_iff in E. exact E.
  Qed.

  Lemma post_spend_fields s :
    sp_create_coin (post_spend V s) = sp_create_coin s /\ sp_amount (post_spend V s) = sp_amount s /\
    sp_parent (post_spend V s) = sp_parent s /\ sp_ph (post_spend V s) = sp_ph s /\
    sp_coin_id (post_spend V s) = sp_coin_id s.
  Proof. unfold post_spend. destruct V; repeat split; reflexivity. Qed.

  Lemma process_single_spend_inv ret state p ph a conds mc cc ret' state' mc' :
    process_single_spend vk H K fl V ret state p ph a conds mc cc = Ok (ret', state', mc') ->
    SInv ret state -> SInv ret' state'.
  Proof.
    unfold process_single_spend. intros Hp I.
    destruct (sanitize_hash p 32 InvalidParentId) as [parent|] eqn:E1; cbn [bind] in Hp; [|discriminate].
    destruct (sanitize_hash ph 32 InvalidPuzzleHash) as [puz|] eqn:E2; cbn [bind] in Hp; [|discriminate].
    destruct (parse_amount a InvalidCoinAmount) as [amt|] eqn:E3; cbn [bind] in Hp; [|discriminate].
    destruct (atom_of a InvalidCoinAmount) as [buf|] eqn:E4; cbn [bind] in Hp; [|discriminate].
    destruct (lookup_idx (H (parent ++ puz ++ buf)) (s_spent_coins state)) eqn:E5; [discriminate|].
    match type of Hp with bind ?r _ = _ => destruct r as [st1|] eqn:E6; cbn [bind] in Hp; [|discriminate] end.
    match type of Hp with bind ?r _ = _ => destruct r as [st2|] eqn:E7; cbn [bind] in Hp; [|discriminate] end.
    inversion Hp; subst ret' state' mc'; clear Hp.
    destruct (parse_amount_canon _ _ _ _ _ E3 E4) as [-> Hamt].
    apply sanitize_hash_len in E1. apply sanitize_hash_len in E2.
    apply lookup_idx_none in E5.
    set (cid := H (parent ++ puz ++ canon_n amt)) in *.
    (* the state the inner loop starts from *)
    set (sp0 := new_spend parent amt puz cid cc) in *.
    match type of E6 with (if _ then charge ?s _ else _) = _ => set (st0 := s) in * end.
    assert (C1 : core_of st1 = core_of st0).
    { destruct (f_cost_conds fl); [now apply charge_core in E6|now inversion E6]. }
    match type of E7 with conditions_loop _ _ _ _ _ ?s = _ => set (stA := s) in * end.
    assert (CA : core_of stA = core_of st0).
    { unfold stA. rewrite <- C1. destruct V; reflexivity. }
    assert (KI : KInv (b_removal ret + amt) (b_addition ret) (core_of st0) (core_of stA)).
    { rewrite CA. constructor; try reflexivity.
      - cbn. lia.
      - cbn. constructor. }
    pose proof (conditions_loop_inv _ _ _ _ _ _ _ _ _ _ E7 KI) as [Krem Kadd Kdone Knd Kamt Kpar Kph Kid Kspent].
    cbn [core_of k_rem k_add k_done k_cc k_amt k_par k_ph k_id k_spent] in *.
    cbn [st0 l_ret l_state l_spend b_with b_removal b_addition b_spends_rev sp0 new_spend sp_create_coin sp_amount
         sp_parent sp_ph sp_coin_id s_spent_coins] in *.
    destruct (post_spend_fields (l_spend st2)) as [Pcc [Pamt [Ppar [Pph Pid]]]].
    destruct I as [Irem Iadd Ispent Ind Ieach].
    constructor; cbn [b_with b_removal b_addition b_spends_rev map].
    - rewrite Krem. cbn [sumN fold_right]. rewrite Pamt, Kamt, Kdone. unfold sumN in Irem. lia.
    - rewrite Kadd. cbn [sumN fold_right]. unfold created at 1. rewrite Pcc. rewrite Kdone.
      unfold sumN in *. lia.
    - rewrite Kspent. cbn [map fst]. rewrite Pid, Kid, Kdone. f_equal. exact Ispent.
    - rewrite Pid, Kid, Kdone. constructor; [|exact Ind]. rewrite <- Ispent. exact E5.
    - rewrite Kdone. constructor; [|exact Ieach].
      unfold spend_ok. rewrite Pcc, Pid, Ppar, Pph, Pamt, Kid, Kpar, Kph, Kamt. repeat split; assumption.
  Qed.

  Lemma spends_loop_inv iter : forall ret state cl sl cc ret' state' cl',
    spends_loop vk H K fl V iter ret state cl sl cc = Ok (ret', state', cl') ->
    SInv ret state -> SInv ret' state'.
  Proof.
    induction iter as [b|sp _ nxt IH]; intros ret state cl sl cc ret' state' cl' Hs I.
    - cbn [spends_loop] in Hs. destruct b; [inversion Hs; subst; exact I|discriminate].
    - cbn [spends_loop] in Hs.
      assert (Hgo : (p <- parse_single_spend sp ;;
                     let '(parent_id, puzzle_hash, amount, conds) := p in
                     r <- process_single_spend vk H K fl V ret state parent_id puzzle_hash amount conds cl cc ;;
                     let '(ret1, state1, cost1) := r in
                     spends_loop vk H K fl V nxt ret1 state1 cost1 (option_map N.pred sl) cc) = Ok (ret', state', cl')).
      { destruct sl as [[|q]|]; [discriminate|exact Hs|exact Hs]. }
      clear Hs.
      destruct (parse_single_spend sp) as [[[[pid phh] amt] conds]|] eqn:E; cbn [bind] in Hgo; [|discriminate].
      destruct (process_single_spend vk H K fl V ret state pid phh amt conds cl cc) as [[[ret1 state1] cost1]|] eqn:E1;
        cbn [bind] in Hgo; [|discriminate].
      eapply IH; [exact Hgo|]. eapply process_single_spend_inv; eassumption.
  Qed.

  (* post_process only touches the fast-forward flag *)
  Definition unflag (s : spend) := (sp_parent s, sp_amount s, sp_ph s, sp_coin_id s, sp_create_coin s).

  Lemma map_combine_seq {A} (f : spend -> A) (g : nat * spend -> spend) (l : list spend) :
    (forall i s, f (g (i, s)) = f s) -> forall a, map f (map g (combine (seq a (length l)) l)) = map f l.
  Proof.
    intros Hfg. induction l as [|x l IH]; intros a; [reflexivity|].
    cbn [length seq combine map]. rewrite Hfg. f_equal. apply IH.
  Qed.

  Lemma post_process_unflag l state : map unflag (post_process H V l state) = map unflag l.
  Proof.
    unfold post_process. destruct V; [reflexivity|].
    rewrite map_map.
    rewrite (map_ext _ unflag).
    2:{ intros x. match goal with |- context [if ?c then _ else _] => destruct c end; reflexivity. }
    apply map_combine_seq.
    intros i s. cbn beta iota.
    match goal with |- context [if ?c then _ else _] => destruct c end; reflexivity.
  Qed.
End Outer.

(* ---------- the statement about accepted results ---------- *)
Lemma fast_rev_rev {A} (l : list A) : fast_rev l = rev l.
Proof. unfold fast_rev. rewrite rev_append_rev. apply app_nil_r. Qed.

Lemma sumN_rev l : sumN (rev l) = sumN l.
Proof.
  induction l as [|x l IH]; [reflexivity|]. cbn [rev]. rewrite sumN_app, IH. cbn [sumN fold_right]. unfold sumN. lia.
Qed.

Lemma validate_conditions_amounts H ret spends state :
  validate_conditions H ret spends state = Ok tt ->
  b_addition ret + b_reserve_fee ret <= b_removal ret.
Proof.
  unfold validate_conditions. intros Hv.
  destruct (N.ltb_spec (b_removal ret) (b_addition ret)); [discriminate|].
  destruct (N.ltb_spec (b_removal ret - b_addition ret) (b_reserve_fee ret)); [discriminate|]. lia.
Qed.

Lemma map_via_unflag {B} (g : _ -> B) l1 l2 :
  map unflag l1 = map unflag l2 -> map (fun s => g (unflag s)) l1 = map (fun s => g (unflag s)) l2.
Proof.
  revert l2. induction l1 as [|x l1 IH]; intros [|y l2] Hm; try discriminate; [reflexivity|].
  cbn [map] in *.
  assert (Hx : unflag x = unflag y) by congruence.
  assert (Hr : map unflag l1 = map unflag l2) by congruence.
  f_equal; [now rewrite Hx|now apply IH].
Qed.

Theorem accepted_conserves vk H K fl V t max_cost clvm_cost b spends pairs :
  parse_spends vk H K fl V t max_cost clvm_cost = Ok (b, spends, pairs) ->
  b_addition b + b_reserve_fee b <= b_removal b /\
  b_removal b = sumN (map sp_amount spends) /\
  b_addition b = sumN (map created spends) /\
  NoDup (map sp_coin_id spends) /\
  Forall (spend_ok H) spends.
Proof.
  unfold parse_spends. intros Hp.
  destruct (first t) as [iter|] eqn:E0; cbn [bind] in Hp; [|discriminate].
  match type of Hp with bind ?r _ = _ => destruct r as [[[ret state] cl]|] eqn:E1; cbn [bind] in Hp; [|discriminate] end.
  match type of Hp with bind ?r _ = _ => destruct r as [[]|] eqn:E2; cbn [bind] in Hp; [|discriminate] end.
  inversion Hp; subst b spends pairs; clear Hp.
  cbn [b_addition b_reserve_fee b_removal].
  assert (I0 : SInv H empty_bundle empty_state).
  { constructor; cbn; try reflexivity; constructor. }
  pose proof (spends_loop_inv _ _ _ _ _ _ _ _ _ _ _ _ _ _ E1 I0) as [Irem Iadd Ispent Ind Ieach].
  pose proof (post_process_unflag H V (fast_rev (b_spends_rev ret)) state) as Hu.
  set (sp1 := post_process H V (fast_rev (b_spends_rev ret)) state) in *.
  assert (Hamt : map sp_amount sp1 = map sp_amount (fast_rev (b_spends_rev ret)))
    by exact (map_via_unflag (fun u => snd (fst (fst (fst u)))) _ _ Hu).
  assert (Hcc : map sp_create_coin sp1 = map sp_create_coin (fast_rev (b_spends_rev ret)))
    by exact (map_via_unflag (fun u => snd u) _ _ Hu).
  assert (Hid : map sp_coin_id sp1 = map sp_coin_id (fast_rev (b_spends_rev ret)))
    by exact (map_via_unflag (fun u => snd (fst u)) _ _ Hu).
  rewrite fast_rev_rev in Hamt, Hcc, Hid.
  split; [eapply validate_conditions_amounts; exact E2|].
  split; [rewrite Hamt, map_rev, sumN_rev; exact Irem|].
  split.
  { unfold created. rewrite <- (map_map sp_create_coin (fun l => sumN (map nc_amount l))).
    rewrite Hcc, map_map, map_rev, sumN_rev. exact Iadd. }
  split; [rewrite Hid, map_rev; apply NoDup_rev; exact Ind|].
  (* per-spend facts transfer through unflag *)
  assert (Hall : Forall (spend_ok H) (rev (b_spends_rev ret))) by (apply Forall_rev; exact Ieach).
  rewrite <- fast_rev_rev in Hall.
  assert (Hgen : forall l1 l2, map unflag l1 = map unflag l2 -> Forall (spend_ok H) l2 -> Forall (spend_ok H) l1).
  { induction l1 as [|x l1 IH]; intros [|y l2] Hm Hf; try discriminate; constructor.
    - cbn [map] in Hm. assert (Hx : unflag x = unflag y) by congruence. inversion Hf as [|? ? Hy Hf']; subst.
      unfold unflag in Hx. injection Hx as P A Ph Id Cc.
      unfold spend_ok in *. rewrite P, A, Ph, Id, Cc. exact Hy.
    - cbn [map] in Hm. assert (Hr : map unflag l1 = map unflag l2) by congruence. inversion Hf; subst. eapply IH; eassumption. }
  eapply Hgen; [exact Hu|exact Hall].
Qed.
