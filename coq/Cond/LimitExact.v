(* Cond/LimitExact.v — the cost limit is exact (C04): if parse_spends accepts under limit m with
   reported cost c, then it accepts with the identical result under limit c, and under every
   smaller limit it fails with CostExceeded.  Proof: a simulation between two runs of the mirror
   whose budgets differ by d ("shift"). *)
From ChiaV.Base Require Import Bytes.
From ChiaV.Clvm Require Import Sexp Ints.
From ChiaV.Gen Require Import Opcodes Ladders.
From ChiaV.Cond Require Import Model Invariants CostFacts.
From Coq Require Import ZifyBool ZifyNat ZifyN.
Open Scope N_scope.

Definition shift (d : N) (st : lstate) : lstate :=
  {| l_ret := l_ret st; l_state := l_state st; l_spend := l_spend st; l_max_cost := l_max_cost st - d;
     l_countdown := l_countdown st; l_counter := l_counter st |}.

Definition shifted (d : N) (r : res lstate) : res lstate :=
  match r with
  | Ok s => if d <=? l_max_cost s then Ok (shift d s) else Err CostExceeded
  | Err e => Err e
  end.

(* f survives a reduction of the budget by d as long as d does not exceed what is left at the end,
   and otherwise fails with CostExceeded; the budget never grows *)
Definition shiftable (f : lstate -> res lstate) : Prop :=
  forall st st1 d, f st = Ok st1 -> d <= l_max_cost st ->
    l_max_cost st1 <= l_max_cost st /\ f (shift d st) = shifted d (Ok st1).

(* f neither reads nor writes the budget *)
Definition budget_blind (f : lstate -> res lstate) : Prop :=
  forall st d, f (shift d st) = match f st with Ok s => Ok (shift d s) | Err e => Err e end /\
               (forall s, f st = Ok s -> l_max_cost s = l_max_cost st).

Lemma blind_shiftable f : budget_blind f -> shiftable f.
Proof.
  intros B st st1 d Hf Hd. destruct (B st d) as [B1 B2]. rewrite Hf in B1.
  pose proof (B2 _ Hf) as Hm. split; [lia|].
  rewrite B1. cbn [shifted]. rewrite Hm. destruct (N.leb_spec d (l_max_cost st)); [reflexivity|lia].
Qed.

Lemma shiftable_bind f g : shiftable f -> shiftable g -> shiftable (fun st => x <- f st ;; g x).
Proof.
  intros Sf Sg st st2 d Hfg Hd. cbn beta in *.
  destruct (f st) as [st1|] eqn:Ef; cbn [bind] in Hfg; [|discriminate].
  destruct (Sf _ _ _ Ef Hd) as [M1 F1]. rewrite F1. cbn [shifted].
  destruct (N.leb_spec d (l_max_cost st1)) as [H1|H1].
  - cbn [bind]. destruct (Sg _ _ _ Hfg H1) as [M2 G2]. split; [lia|exact G2].
  - cbn [bind]. assert (M2 : l_max_cost st2 <= l_max_cost st1).
    { destruct (Sg _ _ 0 Hfg) as [M2 _]; [lia|exact M2]. }
    split; [lia|]. cbn [shifted]. destruct (N.leb_spec d (l_max_cost st2)); [lia|reflexivity].
Qed.

Lemma shiftable_ret : shiftable (fun st => Ok st).
Proof.
  intros st st1 d [= <-] Hd. split; [lia|]. cbn [shifted].
  destruct (N.leb_spec d (l_max_cost st)); [reflexivity|lia].
Qed.

Lemma charge_shiftable c : shiftable (fun st => charge st c).
Proof.
  intros st st1 d Hc Hd. unfold charge in *.
  destruct (N.ltb_spec (l_max_cost st) c) as [|Hge]; [discriminate|]. inversion Hc; subst st1; clear Hc.
  cbn [l_max_cost shift shifted]. split; [lia|].
  destruct (N.leb_spec d (l_max_cost st - c)) as [H1|H1].
  - destruct (N.ltb_spec (l_max_cost st - d) c); [lia|].
    unfold shift. cbn. f_equal. f_equal. lia.
  - destruct (N.ltb_spec (l_max_cost st - d) c); [reflexivity|lia].
Qed.

(* commuting with shift, for the helpers that only move the other components around *)
Lemma mark_shift d st : mark_not_ephemeral (shift d st) = shift d (mark_not_ephemeral st).
Proof. unfold mark_not_ephemeral. cbn [shift l_spend]. destruct (sp_has_relative (l_spend st)); reflexivity. Qed.

Lemma mark_max st : l_max_cost (mark_not_ephemeral st) = l_max_cost st.
Proof. unfold mark_not_ephemeral. destruct (sp_has_relative (l_spend st)); reflexivity. Qed.

Lemma push_pair_shift fl d st pk msg : push_pair fl (shift d st) pk msg = shift d (push_pair fl st pk msg).
Proof. unfold push_pair. destruct (f_dont_validate fl); reflexivity. Qed.

Lemma push_pair_max fl st pk msg : l_max_cost (push_pair fl st pk msg) = l_max_cost st.
Proof. unfold push_pair. destruct (f_dont_validate fl); reflexivity. Qed.

Lemma decrement_blind fl : budget_blind (decrement fl).
Proof.
  intros st d. unfold decrement. cbn [shift l_countdown].
  destruct (f_cost_conds fl); [split; [reflexivity|intros s [= <-]; reflexivity]|].
  destruct (l_countdown st =? 0); split; try reflexivity; try discriminate. intros s [= <-]. reflexivity.
Qed.

Ltac split_cases_goal :=
  repeat (match goal with
          | |- context [if ?c then _ else _] => destruct c
          | |- context [match ?x with Some _ => _ | None => _ end] => destruct x
          | |- context [check_agg_sig_unsafe_message ?k ?m] => destruct (check_agg_sig_unsafe_message k m) as [[]|]
          | |- context [spend_id_from_self ?a ?b ?c ?e ?f] => destruct (spend_id_from_self a b c e f)
          end; cbn [bind shift l_ret l_spend l_state l_countdown l_counter l_max_cost with_spend with_ret with_state]).

Ltac split_cases_in H :=
  repeat (match type of H with
          | context [if ?c then _ else _] => destruct c
          | context [match ?x with Some _ => _ | None => _ end] => destruct x
          | context [check_agg_sig_unsafe_message ?k ?m] => destruct (check_agg_sig_unsafe_message k m) as [[]|]
          | context [spend_id_from_self ?a ?b ?c ?e ?f] => destruct (spend_id_from_self a b c e f)
          end; cbn [bind shift l_ret l_spend l_state l_countdown l_counter l_max_cost with_spend with_ret with_state] in H).

Lemma apply_condition_shiftable vk K fl cva : shiftable (fun st => apply_condition vk K fl st cva).
Proof.
  destruct cva; try (cbn [apply_condition]; apply charge_shiftable);
    apply blind_shiftable; intros st d; cbn [apply_condition];
    unfold mark_not_ephemeral, push_pair, decrement;
    cbn [bind shift l_ret l_spend l_state l_countdown l_counter l_max_cost with_spend with_ret with_state];
    (split; [split_cases_goal; reflexivity
            | intros s Hs; split_cases_in Hs; try discriminate Hs; inversion Hs; reflexivity ]).
Qed.

Lemma precharge_shiftable fl op : shiftable (fun st => precharge fl st op).
Proof.
  unfold precharge.
  repeat match goal with |- context [if ?c then _ else _] => destruct c end;
    try apply charge_shiftable; apply shiftable_ret.
Qed.

Lemma visit_shift V d st cva : visit V (shift d st) cva = shift d (visit V st cva).
Proof.
  unfold visit. destruct V; [reflexivity|]. cbn [shift l_counter l_spend].
  destruct (mempool_condition _ _ _ _). reflexivity.
Qed.

Lemma visit_max V st cva : l_max_cost (visit V st cva) = l_max_cost st.
Proof. unfold visit. destruct V; [reflexivity|]. destruct (mempool_condition _ _ _ _). reflexivity. Qed.

Lemma process_condition_shiftable vk K fl V c : shiftable (process_condition vk K fl V c).
Proof.
  unfold process_condition. destruct (first c) as [f|]; cbn [bind]; [|intros st st1 d Hx; discriminate].
  destruct (parse_opcode f) as [op|].
  - destruct (rest c) as [c1|] eqn:Er; cbn [bind].
    2:{ intros st st1 d Hx. destruct (precharge fl st op); discriminate. }
    destruct (parse_args fl c1 op) as [cva|] eqn:Ea; cbn [bind].
    2:{ intros st st1 d Hx. destruct (precharge fl st op); discriminate. }
    apply (shiftable_bind (fun st => precharge fl st op)); [apply precharge_shiftable|].
    intros st st1 d Ha Hd.
    pose proof (apply_condition_shiftable vk K fl cva (visit V st cva) st1 d Ha) as Hs.
    rewrite visit_max in Hs. destruct (Hs Hd) as [M S]. split; [exact M|].
    rewrite visit_shift. exact S.
  - destruct (f_no_unknown fl); [intros st st1 d Hx; discriminate|].
    destruct (f_cost_conds fl); [apply charge_shiftable|apply shiftable_ret].
Qed.

Lemma conditions_loop_shiftable vk K fl V iter : shiftable (conditions_loop vk K fl V iter).
Proof.
  induction iter as [b|c _ nxt IH]; cbn [conditions_loop].
  - destruct b; [apply shiftable_ret|intros st st1 d Hx; discriminate].
  - apply (shiftable_bind (process_condition vk K fl V c)); [apply process_condition_shiftable|exact IH].
Qed.

Section Outer.
  Variable vk : bytes -> bool.
  Variable H : bytes -> bytes.
  Variable K : consts.
  Variable fl : cflags.
  Variable V : visitor.

  Definition shifted3 (d : N) (r : res (bundle * pstate * N)) : res (bundle * pstate * N) :=
    match r with
    | Ok (b, s, m) => if d <=? m then Ok (b, s, m - d) else Err CostExceeded
    | Err e => Err e
    end.

  Lemma process_single_spend_shift ret state p ph a conds mc cc ret' state' mc' d :
    process_single_spend vk H K fl V ret state p ph a conds mc cc = Ok (ret', state', mc') -> d <= mc ->
    mc' <= mc /\
    process_single_spend vk H K fl V ret state p ph a conds (mc - d) cc = shifted3 d (Ok (ret', state', mc')).
  Proof.
    unfold process_single_spend. intros Hp Hd.
    destruct (sanitize_hash p 32 InvalidParentId) as [parent|]; cbn [bind] in *; [|discriminate].
    destruct (sanitize_hash ph 32 InvalidPuzzleHash) as [puz|]; cbn [bind] in *; [|discriminate].
    destruct (parse_amount a InvalidCoinAmount) as [amt|]; cbn [bind] in *; [|discriminate].
    destruct (atom_of a InvalidCoinAmount) as [buf|]; cbn [bind] in *; [|discriminate].
    destruct (lookup_idx _ _); [discriminate|].
    match type of Hp with bind (if _ then charge ?s _ else _) _ = _ => set (st0 := s) in * end.
    match goal with |- _ /\ bind (if _ then charge ?s _ else _) _ = _ => change s with (shift d st0) end.
    (* the composite from st0 on is shiftable *)
    set (f1 := fun st => if f_cost_conds fl then charge st SPEND_COST else Ok st).
    set (prep := fun st1 : lstate =>
                   with_spend st1 match V with
                                  | VEmpty => l_spend st1
                                  | VMempool => sp_set_flags (l_spend st1) (N.odd amt) true (sp_has_relative (l_spend st1))
                                  end).
    assert (S1 : shiftable f1) by (unfold f1; destruct (f_cost_conds fl); [apply charge_shiftable|apply shiftable_ret]).
    assert (S2 : shiftable (fun st1 => conditions_loop vk K fl V conds (prep st1))).
    { intros st1 st2 dd Hc Hdd.
      destruct (conditions_loop_shiftable vk K fl V conds (prep st1) st2 dd Hc) as [M S]; [unfold prep; destruct V; exact Hdd|].
      split; [unfold prep in M; destruct V; exact M|].
      replace (prep (shift dd st1)) with (shift dd (prep st1)) by (unfold prep; destruct V; reflexivity). exact S. }
    pose proof (shiftable_bind _ _ S1 S2) as S12. cbn beta in S12.
    change (bind (f1 st0) (fun st1 => bind (conditions_loop vk K fl V conds (prep st1))
              (fun st2 => Ok (b_with (l_ret st2) (post_spend V (l_spend st2) :: b_spends_rev (l_ret st2))
                                     (b_reserve_fee (l_ret st2)) (b_height_absolute (l_ret st2)) (b_seconds_absolute (l_ret st2))
                                     (b_agg_sig_unsafe (l_ret st2)) (b_before_height_absolute (l_ret st2))
                                     (b_before_seconds_absolute (l_ret st2)) (b_cond_cost (l_ret st2)) (b_removal (l_ret st2))
                                     (b_addition (l_ret st2)), l_state st2, l_max_cost st2))) = Ok (ret', state', mc')) in Hp.
    destruct (f1 st0) as [st1|] eqn:E1; cbn [bind] in Hp; [|discriminate].
    destruct (conditions_loop vk K fl V conds (prep st1)) as [st2|] eqn:E2; cbn [bind] in Hp; [|discriminate].
    inversion Hp; subst ret' state' mc'; clear Hp.
    assert (E12 : (x <- f1 st0 ;; conditions_loop vk K fl V conds (prep x)) = Ok st2) by (rewrite E1; exact E2).
    destruct (S12 st0 st2 d E12 Hd) as [M S].
    split; [exact M|].
    change (bind (f1 (shift d st0)) (fun st1 => bind (conditions_loop vk K fl V conds (prep st1))
              (fun st2 => Ok (b_with (l_ret st2) (post_spend V (l_spend st2) :: b_spends_rev (l_ret st2))
                                     (b_reserve_fee (l_ret st2)) (b_height_absolute (l_ret st2)) (b_seconds_absolute (l_ret st2))
                                     (b_agg_sig_unsafe (l_ret st2)) (b_before_height_absolute (l_ret st2))
                                     (b_before_seconds_absolute (l_ret st2)) (b_cond_cost (l_ret st2)) (b_removal (l_ret st2))
                                     (b_addition (l_ret st2)), l_state st2, l_max_cost st2)))
            = shifted3 d (Ok (b_with (l_ret st2) (post_spend V (l_spend st2) :: b_spends_rev (l_ret st2))
                                     (b_reserve_fee (l_ret st2)) (b_height_absolute (l_ret st2)) (b_seconds_absolute (l_ret st2))
                                     (b_agg_sig_unsafe (l_ret st2)) (b_before_height_absolute (l_ret st2))
                                     (b_before_seconds_absolute (l_ret st2)) (b_cond_cost (l_ret st2)) (b_removal (l_ret st2))
                                     (b_addition (l_ret st2)), l_state st2, l_max_cost st2))).
    cbn [shifted3]. cbn [shifted] in S.
    destruct (f1 (shift d st0)) as [x|e] eqn:Ex; cbn [bind] in S |- *.
    - destruct (N.leb_spec d (l_max_cost st2)).
      + rewrite S. cbn [bind shift l_ret l_spend l_state l_max_cost]. reflexivity.
      + rewrite S. reflexivity.
    - destruct (N.leb_spec d (l_max_cost st2)); [discriminate S|]. inversion S. reflexivity.
  Qed.

  Lemma spends_loop_shift iter : forall ret state cl sl cc ret' state' cl' d,
    spends_loop vk H K fl V iter ret state cl sl cc = Ok (ret', state', cl') -> d <= cl ->
    cl' <= cl /\
    spends_loop vk H K fl V iter ret state (cl - d) sl cc = shifted3 d (Ok (ret', state', cl')).
  Proof.
    induction iter as [b|sp _ nxt IH]; intros ret state cl sl cc ret' state' cl' d Hs Hd.
    - cbn [spends_loop] in *. destruct b; [|discriminate]. inversion Hs; subst. split; [lia|].
      cbn [shifted3]. destruct (N.leb_spec d cl'); [reflexivity|lia].
    - cbn [spends_loop] in Hs |- *.
      destruct sl as [[|q]|]; [discriminate| |].
      all: destruct (parse_single_spend sp) as [[[[pid phh] amt] conds]|]; cbn [bind] in *; [|discriminate].
      all: destruct (process_single_spend vk H K fl V ret state pid phh amt conds cl cc) as [[[ret1 state1] cost1]|] eqn:E1;
        cbn [bind] in Hs; [|discriminate].
      all: destruct (process_single_spend_shift _ _ _ _ _ _ _ _ _ _ _ _ E1 Hd) as [M1 S1]; rewrite S1; cbn [shifted3].
      all: destruct (N.leb_spec d cost1) as [Hle|Hgt]; cbn [bind].
      all: try (destruct (IH _ _ _ _ _ _ _ _ _ Hs Hle) as [M2 S2]; split; [lia|exact S2]).
      all: destruct (IH _ _ _ _ _ _ _ _ 0 Hs) as [M2 _]; [lia|]; split; [lia|];
           cbn [shifted3]; destruct (N.leb_spec d cl'); [lia|reflexivity].
  Qed.
End Outer.

(* the exact-limit theorem *)
Theorem limit_exact vk H K fl V t max_cost clvm_cost b spends pairs :
  parse_spends vk H K fl V t max_cost clvm_cost = Ok (b, spends, pairs) ->
  b_cost b <= max_cost /\
  parse_spends vk H K fl V t (b_cost b) clvm_cost = Ok (b, spends, pairs) /\
  (forall m, m < b_cost b -> parse_spends vk H K fl V t m clvm_cost = Err CostExceeded).
Proof.
  unfold parse_spends. intros Hp.
  destruct (first t) as [iter|]; cbn [bind] in *; [|discriminate].
  match type of Hp with bind ?r _ = _ => destruct r as [[[ret state] cl]|] eqn:E1; cbn [bind] in Hp; [|discriminate] end.
  match type of Hp with bind ?r _ = _ => destruct r as [[]|] eqn:E2; cbn [bind] in Hp; [|discriminate] end.
  inversion Hp; subst b spends pairs; clear Hp. cbn [b_cost].
  assert (Hcl : cl <= max_cost).
  { destruct (spends_loop_shift vk H K fl V _ _ _ _ _ _ _ _ _ 0 E1) as [M _]; [lia|exact M]. }
  split; [lia|]. split.
  - (* limit = cost: shift by what was left *)
    destruct (spends_loop_shift vk H K fl V _ _ _ _ _ _ _ _ _ cl E1 Hcl) as [_ S].
    rewrite S. cbn [shifted3]. destruct (N.leb_spec cl cl); [|lia]. cbn [bind]. rewrite E2. cbn [bind].
    replace (cl - cl) with 0 by lia. rewrite N.sub_0_r. reflexivity.
  - intros m Hm.
    assert (Hd : max_cost - m <= max_cost) by lia.
    destruct (spends_loop_shift vk H K fl V _ _ _ _ _ _ _ _ _ (max_cost - m) E1 Hd) as [_ S].
    replace (max_cost - (max_cost - m)) with m in S by lia.
    rewrite S. cbn [shifted3]. destruct (N.leb_spec (max_cost - m) cl); [lia|]. reflexivity.
Qed.
