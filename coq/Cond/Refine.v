(* Cond/Refine.v — parse_spends against the declarative rules (C01, stages S2/S3, in progress):
   - syntax/semantics split (Syntax.v);
   - the deferred, cross-spend validation passes exactly when the declarative rules hold. *)
From ChiaV.Base Require Import Bytes.
From ChiaV.Clvm Require Import Sexp Ints.
From ChiaV.Gen Require Import Opcodes Ladders.
From ChiaV.Cond Require Import Model Invariants Syntax Collect Rules.
From Coq Require Import ZifyBool ZifyNat ZifyN.
Open Scope N_scope.

Section Refine.
  Variable vk : bytes -> bool.
  Variable H : bytes -> bytes.
  Variable K : consts.
  Variable fl : cflags.
  Variable V : visitor.

  Lemma spends_sem_RColl ps : forall done ret state cl sl cc ret' state' cl',
    spends_sem vk H K fl V ps ret state cl sl cc = Ok (ret', state', cl') ->
    RColl done ret state -> RColl (done ++ ps) ret' state'.
  Proof.
    induction ps as [|p ps IH]; intros done ret state cl sl cc ret' state' cl' Hs C; cbn [spends_sem] in Hs.
    - inversion Hs; subst. now rewrite app_nil_r.
    - assert (Hgo : (r <- spend_sem vk H K fl V ret state cl cc p ;;
                     let '(ret1, state1, cost1) := r in
                     spends_sem vk H K fl V ps ret1 state1 cost1 (option_map N.pred sl) cc) = Ok (ret', state', cl')).
      { destruct sl as [[|q]|]; [discriminate|exact Hs|exact Hs]. }
      destruct (spend_sem vk H K fl V ret state cl cc p) as [[[ret1 state1] cost1]|] eqn:E; cbn [bind] in Hgo; [|discriminate].
      replace (done ++ p :: ps) with ((done ++ [p]) ++ ps) by (rewrite <- app_assoc; reflexivity).
      eapply IH; [exact Hgo|]. eapply spend_sem_RColl; eassumption.
  Qed.

  Lemma spends_sem_NoDup ps : forall done ret state cl sl cc ret' state' cl',
    spends_sem vk H K fl V ps ret state cl sl cc = Ok (ret', state', cl') ->
    Coll H done ret state -> NoDup (map (pid H) done) -> NoDup (map (pid H) (done ++ ps)).
  Proof.
    induction ps as [|p ps IH]; intros done ret state cl sl cc ret' state' cl' Hs C Hn; cbn [spends_sem] in Hs.
    - now rewrite app_nil_r.
    - assert (Hgo : (r <- spend_sem vk H K fl V ret state cl cc p ;;
                     let '(ret1, state1, cost1) := r in
                     spends_sem vk H K fl V ps ret1 state1 cost1 (option_map N.pred sl) cc) = Ok (ret', state', cl')).
      { destruct sl as [[|q]|]; [discriminate|exact Hs|exact Hs]. }
      destruct (spend_sem vk H K fl V ret state cl cc p) as [[[ret1 state1] cost1]|] eqn:E; cbn [bind] in Hgo; [|discriminate].
      replace (done ++ p :: ps) with ((done ++ [p]) ++ ps) by (rewrite <- app_assoc; reflexivity).
      apply (IH (done ++ [p]) ret1 state1 cost1 (option_map N.pred sl) cc ret' state' cl' Hgo
                (spend_sem_Coll vk H K fl V done ret state cl cc p ret1 state1 cost1 E C)).
      destruct (spend_sem_collect _ _ _ _ _ _ _ _ _ _ _ _ _ E) as [st2 [Hl _]].
      apply (lookup_idx_none vk H) in Hl.
      rewrite map_app. cbn [map]. apply NoDup_snoc; [exact Hn|].
      intros Hin. apply Hl. destruct C as [_ _ _ _ _ _ _ _ _ C9 _ _]. rewrite C9.
      rewrite map_rev, map_map. cbn [fst]. apply -> in_rev.
      apply in_map_iff in Hin. destruct Hin as [q [Hq Hin]].
      apply In_nth_error in Hin. destruct Hin as [n Hn'].
      apply in_map_iff. exists (n, q). split; [exact Hq|now apply enum_iff].
  Qed.

  Lemma sident_post_process l state :
    map sident (post_process H V l state) = map sident l.
  Proof.
    exact (map_via_unflag (fun u => (snd (fst u), fst (fst (fst (fst u))), snd (fst (fst u)), snd (fst (fst (fst u))), snd u))
                          _ _ (post_process_unflag H V l state)).
  Qed.

  (* S3, deferred stage: once every spend and condition has been applied, the bundle passes the
     deferred validation exactly when the declarative bundle-level rules hold *)
  Theorem deferred_stage_iff ps max_cost clvm_cost ret state cl :
    spends_sem vk H K fl V ps empty_bundle empty_state max_cost
               (if f_limit_spends fl then Some MAX_SPENDS_PER_BLOCK else None) clvm_cost = Ok (ret, state, cl) ->
    (validate_conditions H ret (post_process H V (fast_rev (b_spends_rev ret)) state) state = Ok tt <->
     b_addition ret + b_reserve_fee ret <= b_removal ret /\
     match b_before_height_absolute ret with Some bh => b_height_absolute ret < bh | None => True end /\
     match b_before_seconds_absolute ret with Some bs => b_seconds_absolute ret < bs | None => True end /\
     CrossRules H ps).
  Proof.
    intros Hs.
    pose proof (spends_sem_Coll vk H K fl V ps [] _ _ _ _ _ _ _ _ Hs (Coll_empty H)) as C. cbn [app] in C.
    assert (R0 : RColl [] empty_bundle empty_state) by (repeat split).
    pose proof (spends_sem_RColl ps [] _ _ _ _ _ _ _ _ Hs R0) as [_ [Rn _]]. cbn [app] in Rn.
    pose proof (spends_sem_NoDup ps [] _ _ _ _ _ _ _ _ Hs (Coll_empty H) (NoDup_nil _)) as Hnd. cbn [app] in Hnd.
    apply deferred_validation_iff; try assumption.
    rewrite sident_post_process, fast_rev_rev, map_rev.
    destruct C as [_ _ _ _ _ _ _ _ _ _ _ C11]. rewrite C11. apply rev_involutive.
  Qed.

  (* soundness for the whole function: whatever parse_spends accepts parses syntactically into a
     bundle that satisfies every cross-spend rule *)
  Theorem accepted_satisfies_cross_rules t max_cost clvm_cost r :
    parse_spends vk H K fl V t max_cost clvm_cost = Ok r ->
    exists ps, tree_syntax fl t = Ok ps /\ CrossRules H ps.
  Proof.
    intros Hp. apply parse_spends_split in Hp. destruct Hp as [ps [Hsyn Hsem]].
    exists ps. split; [exact Hsyn|].
    unfold bundle_sem in Hsem.
    match type of Hsem with bind ?x _ = _ => destruct x as [[[ret state] cl]|] eqn:E1; cbn [bind] in Hsem; [|discriminate] end.
    match type of Hsem with bind ?x _ = _ => destruct x as [[]|] eqn:E2; cbn [bind] in Hsem; [|discriminate] end.
    apply (deferred_stage_iff ps max_cost clvm_cost ret state cl E1) in E2. tauto.
  Qed.
End Refine.
