(* Cond/SigFacts.v — what an AGG_SIG condition commits the aggregate signature to (C05). *)
From ChiaV.Base Require Import Bytes.
From ChiaV.Clvm Require Import Sexp Ints IntsProofs LadderProofs.
From ChiaV.Gen Require Import Opcodes Ladders.
From ChiaV.Cond Require Import Model Spec Facts.
Open Scope N_scope.

Ltac eqb_decide :=
  repeat match goal with
  | |- context [N.eqb ?a ?b] =>
      let E := fresh "E" in
      destruct (N.eqb_spec a b) as [E|E]; [try discriminate E|try (exfalso; apply E; reflexivity)]
  end.

(* the appended text, per opcode: coin attributes selected by the opcode ++ that opcode's constant *)
Lemma suffix_table K s :
  agg_sig_suffix K Spec.AGG_SIG_ME s = sp_coin_id s ++ c_me K /\
  agg_sig_suffix K Spec.AGG_SIG_PARENT s = sp_parent s ++ c_parent K /\
  agg_sig_suffix K Spec.AGG_SIG_PUZZLE s = sp_ph s ++ c_puzzle K /\
  agg_sig_suffix K Spec.AGG_SIG_AMOUNT s = u64_to_bytes (sp_amount s) ++ c_amount K /\
  agg_sig_suffix K Spec.AGG_SIG_PUZZLE_AMOUNT s = sp_ph s ++ u64_to_bytes (sp_amount s) ++ c_puzzle_amount K /\
  agg_sig_suffix K Spec.AGG_SIG_PARENT_AMOUNT s = sp_parent s ++ u64_to_bytes (sp_amount s) ++ c_parent_amount K /\
  agg_sig_suffix K Spec.AGG_SIG_PARENT_PUZZLE s = sp_parent s ++ sp_ph s ++ c_parent_puzzle K.
Proof. unfold agg_sig_suffix. repeat split; eqb_decide; reflexivity. Qed.

(* amounts are appended in the canonical CLVM integer form (uses the C11 ladder theorem) *)
Lemma suffix_amount_canonical K s :
  sp_amount s < 2 ^ 64 ->
  agg_sig_suffix K Spec.AGG_SIG_AMOUNT s = canon_n (sp_amount s) ++ c_amount K /\
  agg_sig_suffix K Spec.AGG_SIG_PUZZLE_AMOUNT s = sp_ph s ++ canon_n (sp_amount s) ++ c_puzzle_amount K /\
  agg_sig_suffix K Spec.AGG_SIG_PARENT_AMOUNT s = sp_parent s ++ canon_n (sp_amount s) ++ c_parent_amount K.
Proof.
  intros Ha. destruct (suffix_table K s) as [_ [_ [_ [H4 [H5 [H6 _]]]]]].
  rewrite H4, H5, H6, (u64_to_bytes_canon _ Ha). repeat split; reflexivity.
Qed.

(* the effect of an AGG_SIG condition on the list of pairs to be verified *)
Lemma agg_sig_pushes_pair vk K fl st op pk msg st' :
  apply_condition vk K fl st (CAggSig op pk msg) = Ok st' ->
  vk pk = true /\
  (op = AGG_SIG_UNSAFE -> check_agg_sig_unsafe_message K msg = Ok tt) /\
  s_pkm_pairs_rev (l_state st') =
    if f_dont_validate fl then s_pkm_pairs_rev (l_state st)
    else (pk, if op =? AGG_SIG_UNSAFE then msg else msg ++ agg_sig_suffix K op (l_spend st)) :: s_pkm_pairs_rev (l_state st).
Proof.
  cbn [apply_condition]. intros Ha.
  destruct (N.eqb_spec op AGG_SIG_UNSAFE) as [->|Hne].
  - destruct (check_agg_sig_unsafe_message K msg) as [[]|] eqn:Ec; cbn [bind] in Ha; [|discriminate].
    destruct (vk pk) eqn:Ev; [|discriminate]. inversion Ha; subst st'; clear Ha.
    split; [reflexivity|]. split; [intros _; reflexivity|].
    unfold push_pair. destruct (f_dont_validate fl); reflexivity.
  - destruct (vk pk) eqn:Ev; [|discriminate]. inversion Ha; subst st'; clear Ha.
    split; [reflexivity|]. split; [intros E; contradiction|].
    unfold push_pair. destruct (f_dont_validate fl); reflexivity.
Qed.

(* keys that are malformed or the point at infinity (the oracle says no) are rejected *)
Lemma agg_sig_invalid_key_rejected vk K fl st op pk msg :
  vk pk = false -> exists e, apply_condition vk K fl st (CAggSig op pk msg) = Err e.
Proof.
  intros Ev. cbn [apply_condition].
  destruct (op =? AGG_SIG_UNSAFE).
  - destruct (check_agg_sig_unsafe_message K msg) as [[]|e]; cbn [bind]; [rewrite Ev|]; eexists; reflexivity.
  - rewrite Ev. eexists; reflexivity.
Qed.

(* AGG_SIG_UNSAFE: messages of 32 bytes or more ending in any of the seven constants are rejected *)
Lemma unsafe_suffix_banned K msg :
  check_agg_sig_unsafe_message K msg = Ok tt <->
  (length msg < 32)%nat \/
  Forall (fun c => ends_with msg c = false)
         [c_me K; c_parent K; c_puzzle K; c_amount K; c_puzzle_amount K; c_parent_amount K; c_parent_puzzle K].
Proof.
  unfold check_agg_sig_unsafe_message.
  destruct (Nat.ltb_spec (length msg) 32) as [Hl|Hl]; [split; [now left|reflexivity]|].
  set (cs := [c_me K; c_parent K; c_puzzle K; c_amount K; c_puzzle_amount K; c_parent_amount K; c_parent_puzzle K]).
  destruct (existsb (ends_with msg) cs) eqn:E.
  - split; [discriminate|]. intros [Hc|Hf]; [lia|].
    apply existsb_exists in E. destruct E as [c [Hin Hc]].
    rewrite Forall_forall in Hf. rewrite (Hf c Hin) in Hc. discriminate.
  - split; [|reflexivity]. intros _. right. apply Forall_forall. intros c Hin.
    destruct (ends_with msg c) eqn:Ec; [|reflexivity].
    assert (existsb (ends_with msg) cs = true) by (apply existsb_exists; exists c; split; assumption). congruence.
Qed.

Lemma ends_with_spec buf suffix : ends_with buf suffix = true <-> exists pre, buf = pre ++ suffix.
Proof.
  unfold ends_with. destruct (Nat.ltb_spec (length buf) (length suffix)) as [Hl|Hl].
  - split; [discriminate|]. intros [pre ->]. rewrite app_length in Hl. lia.
  - rewrite bytes_eqb_eq. split.
    + intros E. exists (firstn (length buf - length suffix) buf). rewrite <- E at 2. symmetry. apply firstn_skipn.
    + intros [pre ->]. rewrite app_length, Nat.add_sub. rewrite skipn_app, Nat.sub_diag.
      rewrite skipn_all2 by lia. reflexivity.
Qed.

(* single-point injectivity of the signed text: with the other components fixed, changing the
   message, the attribute bytes or the constant changes the text *)
Lemma signed_text_injective (msg msg' attr attr' k k' : bytes) :
  (msg ++ attr ++ k = msg' ++ attr ++ k -> msg = msg') /\
  (length attr = length attr' -> msg ++ attr ++ k = msg ++ attr' ++ k -> attr = attr') /\
  (msg ++ attr ++ k = msg ++ attr ++ k' -> k = k').
Proof.
  repeat split.
  - intros E. rewrite !app_assoc in E. apply app_inv_tail in E. now apply app_inv_tail in E.
  - intros _ E. apply app_inv_head in E. now apply app_inv_tail in E.
  - intros E. apply app_inv_head in E. now apply app_inv_head in E.
Qed.
