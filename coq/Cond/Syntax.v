(* Cond/Syntax.v — the two layers of condition validation, separated:
   (1) syntax: which trees denote a list of spends with parsed conditions (depends on the tree
       and the strictness flags only);
   (2) semantics: the effect of a parsed condition on the validation state.
   The mirror interleaves both; [conditions_loop_split] shows the interleaved loop succeeds
   exactly when the syntax layer succeeds and the fold of the semantic steps succeeds. *)
From ChiaV.Base Require Import Bytes.
From ChiaV.Clvm Require Import Sexp Ints.
From ChiaV.Gen Require Import Opcodes Ladders.
From ChiaV.Cond Require Import Model Invariants.
Open Scope N_scope.

(* a parsed condition: None = unknown opcode (ignored, charged the generic cost after the fork) *)
Definition pcond := option (N * condition).

Definition cond_syntax (fl : cflags) (c : sexp) : res pcond :=
  f <- first c ;;
  match parse_opcode f with
  | None => if f_no_unknown fl then Err InvalidConditionOpcode else Ok None
  | Some op => c1 <- rest c ;; cva <- parse_args fl c1 op ;; Ok (Some (op, cva))
  end.

Fixpoint conds_syntax (fl : cflags) (iter : sexp) : res (list pcond) :=
  match iter with
  | Pair c nxt => p <- cond_syntax fl c ;; l <- conds_syntax fl nxt ;; Ok (p :: l)
  | Atom [] => Ok []
  | Atom _ => Err InvalidCondition
  end.

Section Sem.
  Variable vk : bytes -> bool.
  Variable K : consts.
  Variable fl : cflags.
  Variable V : visitor.

  Definition sem_step (st : lstate) (p : pcond) : res lstate :=
    match p with
    | None => if f_cost_conds fl then charge st GENERIC_CONDITION_COST else Ok st
    | Some (op, cva) => st1 <- precharge fl st op ;; apply_condition vk K fl (visit V st1 cva) cva
    end.

  Fixpoint sem_fold (st : lstate) (l : list pcond) : res lstate :=
    match l with
    | [] => Ok st
    | p :: r => st' <- sem_step st p ;; sem_fold st' r
    end.

  Lemma process_condition_split c st st' :
    process_condition vk K fl V c st = Ok st' <->
    exists p, cond_syntax fl c = Ok p /\ sem_step st p = Ok st'.
  Proof.
    unfold process_condition, cond_syntax.
    destruct (first c) as [f|]; cbn [bind]; [|split; [discriminate|intros [p [Hx _]]; discriminate]].
    destruct (parse_opcode f) as [op|].
    - split.
      + intros Hp.
        destruct (precharge fl st op) as [st1|] eqn:E1; cbn [bind] in Hp; [|discriminate].
        destruct (rest c) as [c1|]; cbn [bind] in *; [|discriminate].
        destruct (parse_args fl c1 op) as [cva|]; cbn [bind] in *; [|discriminate].
        exists (Some (op, cva)). split; [reflexivity|]. cbn [sem_step]. rewrite E1. exact Hp.
      + intros [p [Hs Hm]].
        destruct (rest c) as [c1|]; cbn [bind] in *; [|discriminate].
        destruct (parse_args fl c1 op) as [cva|]; cbn [bind] in *; [|discriminate].
        inversion Hs; subst p; clear Hs. cbn [sem_step] in Hm.
        destruct (precharge fl st op) as [st1|]; cbn [bind] in *; [exact Hm|discriminate].
    - destruct (f_no_unknown fl).
      + split; [discriminate|intros [p [Hx _]]; discriminate].
      + split.
        * intros Hp. exists None. split; [reflexivity|exact Hp].
        * intros [p [[= <-] Hm]]. exact Hm.
  Qed.

  Lemma conditions_loop_split iter : forall st st',
    conditions_loop vk K fl V iter st = Ok st' <->
    exists l, conds_syntax fl iter = Ok l /\ sem_fold st l = Ok st'.
  Proof.
    induction iter as [b|c _ nxt IH]; intros st st'; cbn [conditions_loop conds_syntax].
    - destruct b.
      + split; [intros [= <-]; exists []; split; reflexivity|intros [l [[= <-] Hf]]; exact Hf].
      + split; [discriminate|intros [l [Hx _]]; discriminate].
    - split.
      + intros Hc.
        destruct (process_condition vk K fl V c st) as [st1|] eqn:E; cbn [bind] in Hc; [|discriminate].
        apply process_condition_split in E. destruct E as [p [Hs Hm]].
        apply IH in Hc. destruct Hc as [l [Hl Hf]].
        exists (p :: l). rewrite Hs, Hl. cbn [bind]. split; [reflexivity|].
        cbn [sem_fold]. rewrite Hm. exact Hf.
      + intros [l [Hl Hf]].
        destruct (cond_syntax fl c) as [p|] eqn:Es; cbn [bind] in Hl; [|discriminate].
        destruct (conds_syntax fl nxt) as [l'|] eqn:El; cbn [bind] in Hl; [|discriminate].
        inversion Hl; subst l; clear Hl. cbn [sem_fold] in Hf.
        destruct (sem_step st p) as [st1|] eqn:Em; cbn [bind] in Hf; [|discriminate].
        assert (Ep : process_condition vk K fl V c st = Ok st1) by (apply process_condition_split; exists p; split; assumption).
        rewrite Ep. cbn [bind]. apply IH. exists l'. split; [reflexivity|exact Hf].
  Qed.
End Sem.

(* ---------- the syntax of spends and of the whole generator output ---------- *)
Record pspend := {
  ps_parent : bytes; ps_ph : bytes; ps_amount : N; ps_amount_atom : bytes; ps_conds : list pcond
}.

Definition spend_syntax (fl : cflags) (sp : sexp) : res pspend :=
  '(parent_id, puzzle_hash, amount, conds) <- parse_single_spend sp ;;
  parent <- sanitize_hash parent_id 32 InvalidParentId ;;
  ph <- sanitize_hash puzzle_hash 32 InvalidPuzzleHash ;;
  my_amount <- parse_amount amount InvalidCoinAmount ;;
  amount_buf <- atom_of amount InvalidCoinAmount ;;
  l <- conds_syntax fl conds ;;
  Ok {| ps_parent := parent; ps_ph := ph; ps_amount := my_amount; ps_amount_atom := amount_buf; ps_conds := l |}.

Fixpoint spends_syntax (fl : cflags) (iter : sexp) : res (list pspend) :=
  match iter with
  | Pair sp nxt => p <- spend_syntax fl sp ;; l <- spends_syntax fl nxt ;; Ok (p :: l)
  | Atom [] => Ok []
  | Atom _ => Err InvalidCondition
  end.

Definition tree_syntax (fl : cflags) (t : sexp) : res (list pspend) :=
  iter <- first t ;; spends_syntax fl iter.

(* ---------- the semantic layer on parsed spends ---------- *)
Section SemSpends.
  Variable vk : bytes -> bool.
  Variable H : bytes -> bytes.
  Variable K : consts.
  Variable fl : cflags.
  Variable V : visitor.

  (* process_single_spend after its arguments have been sanitized *)
  Definition spend_sem (ret : bundle) (state : pstate) (max_cost clvm_cost : N) (p : pspend)
    : res (bundle * pstate * N) :=
    let coin_id := H (ps_parent p ++ ps_ph p ++ ps_amount_atom p) in
    match lookup_idx coin_id (s_spent_coins state) with
    | Some _ => Err DoubleSpend
    | None =>
        let idx := length (b_spends_rev ret) in
        let state1 :=
          {| s_announce_coin := s_announce_coin state; s_announce_puzzle := s_announce_puzzle state;
             s_assert_coin := s_assert_coin state; s_assert_puzzle := s_assert_puzzle state;
             s_messages := s_messages state; s_assert_concurrent_spend := s_assert_concurrent_spend state;
             s_assert_concurrent_puzzle := s_assert_concurrent_puzzle state;
             s_spent_coins := (coin_id, idx) :: s_spent_coins state;
             s_spent_puzzles := ps_ph p :: s_spent_puzzles state;
             s_assert_ephemeral := s_assert_ephemeral state; s_assert_not_ephemeral := s_assert_not_ephemeral state;
             s_pkm_pairs_rev := s_pkm_pairs_rev state |} in
        let ret1 := b_with ret (b_spends_rev ret) (b_reserve_fee ret) (b_height_absolute ret) (b_seconds_absolute ret)
                           (b_agg_sig_unsafe ret) (b_before_height_absolute ret) (b_before_seconds_absolute ret)
                           (b_cond_cost ret) (b_removal ret + ps_amount p) (b_addition ret) in
        let sp0 := new_spend (ps_parent p) (ps_amount p) (ps_ph p) coin_id clvm_cost in
        let st0 := {| l_ret := ret1; l_state := state1; l_spend := sp0; l_max_cost := max_cost;
                      l_countdown := ANNOUNCE_LIMIT; l_counter := 0 |} in
        st1 <- (if f_cost_conds fl then charge st0 SPEND_COST else Ok st0) ;;
        let sp1 := match V with
                   | VEmpty => l_spend st1
                   | VMempool => sp_set_flags (l_spend st1) (N.odd (ps_amount p)) true (sp_has_relative (l_spend st1))
                   end in
        st2 <- sem_fold vk K fl V (with_spend st1 sp1) (ps_conds p) ;;
        let sp2 := post_spend V (l_spend st2) in
        let r := l_ret st2 in
        let ret2 := b_with r (sp2 :: b_spends_rev r) (b_reserve_fee r) (b_height_absolute r) (b_seconds_absolute r)
                           (b_agg_sig_unsafe r) (b_before_height_absolute r) (b_before_seconds_absolute r)
                           (b_cond_cost r) (b_removal r) (b_addition r) in
        Ok (ret2, l_state st2, l_max_cost st2)
    end.

  Fixpoint spends_sem (ps : list pspend) (ret : bundle) (state : pstate) (cost_left : N) (spends_left : option N)
           (clvm_cost : N) : res (bundle * pstate * N) :=
    match ps with
    | [] => Ok (ret, state, cost_left)
    | p :: r =>
        match spends_left with
        | Some 0 => Err TooManySpends
        | _ =>
            '(ret1, state1, cost1) <- spend_sem ret state cost_left clvm_cost p ;;
            spends_sem r ret1 state1 cost1 (option_map N.pred spends_left) clvm_cost
        end
    end.

  Lemma process_single_spend_split ret state pid phh amt conds mc cc x :
    process_single_spend vk H K fl V ret state pid phh amt conds mc cc = Ok x <->
    exists parent ph a buf l,
      sanitize_hash pid 32 InvalidParentId = Ok parent /\ sanitize_hash phh 32 InvalidPuzzleHash = Ok ph /\
      parse_amount amt InvalidCoinAmount = Ok a /\ atom_of amt InvalidCoinAmount = Ok buf /\
      conds_syntax fl conds = Ok l /\
      spend_sem ret state mc cc {| ps_parent := parent; ps_ph := ph; ps_amount := a; ps_amount_atom := buf; ps_conds := l |} = Ok x.
  Proof.
    unfold process_single_spend, spend_sem. cbn [ps_parent ps_ph ps_amount ps_amount_atom ps_conds].
    split.
    - intros Hp.
      destruct (sanitize_hash pid 32 InvalidParentId) as [parent|]; cbn [bind] in Hp; [|discriminate].
      destruct (sanitize_hash phh 32 InvalidPuzzleHash) as [ph|]; cbn [bind] in Hp; [|discriminate].
      destruct (parse_amount amt InvalidCoinAmount) as [a|]; cbn [bind] in Hp; [|discriminate].
      destruct (atom_of amt InvalidCoinAmount) as [buf|]; cbn [bind] in Hp; [|discriminate].
      destruct (lookup_idx _ _) eqn:El; [discriminate|].
      match type of Hp with bind ?r _ = _ => destruct r as [st1|] eqn:E6; cbn [bind] in Hp; [|discriminate] end.
      match type of Hp with bind ?r _ = _ => destruct r as [st2|] eqn:E7; cbn [bind] in Hp; [|discriminate] end.
      apply conditions_loop_split in E7. destruct E7 as [l [Hl Hf]].
      exists parent, ph, a, buf, l. repeat split; try reflexivity; try exact Hl.
      rewrite El, E6. cbn [bind]. rewrite Hf. cbn [bind]. exact Hp.
    - intros [parent [ph [a [buf [l [-> [-> [-> [-> [Hl Hs]]]]]]]]]]. cbn [bind].
      destruct (lookup_idx _ _); [discriminate|].
      match type of Hs with bind ?r _ = _ => destruct r as [st1|]; cbn [bind] in Hs |- *; [|discriminate] end.
      match type of Hs with bind ?r _ = _ => destruct r as [st2|] eqn:E7; cbn [bind] in Hs; [|discriminate] end.
      match goal with |- bind ?r _ = _ => assert (Ec : r = Ok st2) by (apply conditions_loop_split; exists l; split; assumption) end.
      rewrite Ec. cbn [bind]. exact Hs.
  Qed.

  Lemma spends_loop_split iter : forall ret state cl sl cc x,
    spends_loop vk H K fl V iter ret state cl sl cc = Ok x <->
    exists ps, spends_syntax fl iter = Ok ps /\ spends_sem ps ret state cl sl cc = Ok x.
  Proof.
    induction iter as [b|sp _ nxt IH]; intros ret state cl sl cc x; cbn [spends_loop spends_syntax].
    - destruct b.
      + split; [intros [= <-]; exists []; split; reflexivity|intros [ps [[= <-] Hf]]; exact Hf].
      + split; [discriminate|intros [ps [Hx _]]; discriminate].
    - split.
      + intros Hs.
        assert (Hgo : (p <- parse_single_spend sp ;;
                       let '(parent_id, puzzle_hash, amount, conds) := p in
                       r <- process_single_spend vk H K fl V ret state parent_id puzzle_hash amount conds cl cc ;;
                       let '(ret1, state1, cost1) := r in
                       spends_loop vk H K fl V nxt ret1 state1 cost1 (option_map N.pred sl) cc) = Ok x
                      /\ sl <> Some 0).
        { destruct sl as [[|q]|]; [discriminate|split; [exact Hs|discriminate]|split; [exact Hs|discriminate]]. }
        destruct Hgo as [Hgo Hnz]. clear Hs.
        unfold spend_syntax.
        destruct (parse_single_spend sp) as [[[[pid phh] amt] conds]|]; cbn [bind] in *; [|discriminate].
        destruct (process_single_spend vk H K fl V ret state pid phh amt conds cl cc) as [[[ret1 state1] cost1]|] eqn:E1;
          cbn [bind] in Hgo; [|discriminate].
        apply process_single_spend_split in E1.
        destruct E1 as [parent [ph [a [buf [l [-> [-> [-> [-> [-> Hsem]]]]]]]]]]. cbn [bind].
        apply IH in Hgo. destruct Hgo as [ps [-> Hps]]. cbn [bind].
        eexists. split; [reflexivity|]. cbn [spends_sem].
        rewrite Hsem. cbn [bind].
        destruct sl as [[|q]|]; [contradiction|exact Hps|exact Hps].
      + intros [ps [Hsyn Hsem]].
        unfold spend_syntax in Hsyn.
        destruct (parse_single_spend sp) as [[[[pid phh] amt] conds]|]; cbn [bind] in *; [|discriminate].
        destruct (sanitize_hash pid 32 InvalidParentId) as [parent|] eqn:E1; cbn [bind] in Hsyn; [|discriminate].
        destruct (sanitize_hash phh 32 InvalidPuzzleHash) as [ph|] eqn:E2; cbn [bind] in Hsyn; [|discriminate].
        destruct (parse_amount amt InvalidCoinAmount) as [a|] eqn:E3; cbn [bind] in Hsyn; [|discriminate].
        destruct (atom_of amt InvalidCoinAmount) as [buf|] eqn:E4; cbn [bind] in Hsyn; [|discriminate].
        destruct (conds_syntax fl conds) as [l|] eqn:E5; cbn [bind] in Hsyn; [|discriminate].
        destruct (spends_syntax fl nxt) as [ps'|] eqn:E6; cbn [bind] in Hsyn; [|discriminate].
        inversion Hsyn; subst ps; clear Hsyn. cbn [spends_sem] in Hsem.
        assert (Hnz : sl <> Some 0) by (destruct sl as [[|q]|]; [discriminate|discriminate|discriminate]).
        assert (Hsem' : (r <- spend_sem ret state cl cc {| ps_parent := parent; ps_ph := ph; ps_amount := a; ps_amount_atom := buf; ps_conds := l |} ;;
                         let '(ret1, state1, cost1) := r in
                         spends_sem ps' ret1 state1 cost1 (option_map N.pred sl) cc) = Ok x).
        { destruct sl as [[|q]|]; [contradiction|exact Hsem|exact Hsem]. }
        clear Hsem.
        match type of Hsem' with bind ?r _ = _ => destruct r as [[[ret1 state1] cost1]|] eqn:Es; cbn [bind] in Hsem'; [|discriminate] end.
        assert (Ep : process_single_spend vk H K fl V ret state pid phh amt conds cl cc = Ok (ret1, state1, cost1)).
        { apply process_single_spend_split. exists parent, ph, a, buf, l. repeat split; assumption. }
        assert (Hn : spends_loop vk H K fl V nxt ret1 state1 cost1 (option_map N.pred sl) cc = Ok x)
          by (apply IH; exists ps'; split; [reflexivity|exact Hsem']).
        destruct sl as [[|q]|]; [contradiction| |]; rewrite Ep; cbn [bind]; exact Hn.
  Qed.

  (* parse_spends as syntax followed by semantics *)
  Definition bundle_sem (ps : list pspend) (max_cost clvm_cost : N) : res (bundle * list spend * list (bytes * bytes)) :=
    '(ret, state, cost_left) <-
      spends_sem ps empty_bundle empty_state max_cost
                 (if f_limit_spends fl then Some MAX_SPENDS_PER_BLOCK else None) clvm_cost ;;
    let spends1 := post_process H V (fast_rev (b_spends_rev ret)) state in
    _ <- validate_conditions H ret spends1 state ;;
    let ret' := {| b_spends_rev := b_spends_rev ret; b_reserve_fee := b_reserve_fee ret;
                   b_height_absolute := b_height_absolute ret; b_seconds_absolute := b_seconds_absolute ret;
                   b_agg_sig_unsafe := b_agg_sig_unsafe ret; b_before_height_absolute := b_before_height_absolute ret;
                   b_before_seconds_absolute := b_before_seconds_absolute ret;
                   b_cost := max_cost - cost_left; b_exec_cost := b_exec_cost ret; b_cond_cost := b_cond_cost ret;
                   b_removal := b_removal ret; b_addition := b_addition ret |} in
    Ok (ret', spends1, fast_rev (s_pkm_pairs_rev state)).

  Theorem parse_spends_split t max_cost clvm_cost r :
    parse_spends vk H K fl V t max_cost clvm_cost = Ok r <->
    exists ps, tree_syntax fl t = Ok ps /\ bundle_sem ps max_cost clvm_cost = Ok r.
  Proof.
    unfold parse_spends, tree_syntax, bundle_sem.
    destruct (first t) as [iter|]; cbn [bind]; [|split; [discriminate|intros [ps [Hx _]]; discriminate]].
    split.
    - intros Hp.
      match type of Hp with bind ?x _ = _ => destruct x as [[[ret state] cl]|] eqn:E1; cbn [bind] in Hp; [|discriminate] end.
      apply spends_loop_split in E1. destruct E1 as [ps [Hs Hm]].
      exists ps. split; [exact Hs|]. rewrite Hm. cbn [bind]. exact Hp.
    - intros [ps [Hs Hm]].
      match type of Hm with bind ?x _ = _ => destruct x as [[[ret state] cl]|] eqn:E1; cbn [bind] in Hm; [|discriminate] end.
      assert (El : spends_loop vk H K fl V iter empty_bundle empty_state max_cost
                     (if f_limit_spends fl then Some MAX_SPENDS_PER_BLOCK else None) clvm_cost = Ok (ret, state, cl))
        by (apply spends_loop_split; exists ps; split; assumption).
      rewrite El. cbn [bind]. exact Hm.
  Qed.
End SemSpends.
