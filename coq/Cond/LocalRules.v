(* Cond/LocalRules.v — the local guard fold read declaratively, family by family. *)
From ChiaV.Base Require Import Bytes.
From ChiaV.Clvm Require Import Sexp Ints.
From ChiaV.Gen Require Import Opcodes Ladders.
From ChiaV.Cond Require Import Model Invariants Syntax Collect Guards Accept Totals Local.
From Coq Require Import ZifyBool ZifyNat ZifyN.
Open Scope N_scope.

Lemma NoDup_app_l {A} (a b : list A) : NoDup (a ++ b) -> NoDup a.
Proof.
  induction a as [|x a IH]; cbn [app]; intros Hn; [constructor|].
  inversion Hn as [|? ? Hx Hr]; subst. constructor; [|now apply IH].
  intros Hin. apply Hx. apply in_or_app. now left.
Qed.

Section LR.
  Variable vk : bytes -> bool.
  Variable K : consts.
  Variable fl : cflags.

  (* a guard family folded along the effects *)
  Fixpoint gfold (g : acore -> condition -> bool) (a : acore) (l : list pcond) : bool :=
    match l with
    | [] => true
    | p :: r => match p with Some (op, c) => g (spend_budget a (pcost fl op)) c | None => true end && gfold g (peffect fl a p) r
    end.

  Lemma lguards_gfold a l : lguards vk K fl a l = gfold (lguard vk K fl) a l.
  Proof. revert a; induction l as [|p l IH]; intros a; cbn [lguards gfold]; [reflexivity|]. now rewrite IH. Qed.

  Lemma gfold_and g h l : forall a, gfold (fun a c => g a c && h a c) a l = gfold g a l && gfold h a l.
  Proof.
    induction l as [|p l IH]; intros a; cbn [gfold]; [reflexivity|]. rewrite IH.
    destruct p as [[op c]|].
    - destruct (g (spend_budget a (pcost fl op)) c), (h (spend_budget a (pcost fl op)) c),
        (gfold g (peffect fl a (Some (op, c))) l), (gfold h (peffect fl a (Some (op, c))) l); reflexivity.
    - reflexivity.
  Qed.

  Lemma gfold_ext g h l : (forall a c, g a c = h a c) -> forall a, gfold g a l = gfold h a l.
  Proof.
    intros E. induction l as [|p l IH]; intros a; cbn [gfold]; [reflexivity|]. rewrite IH.
    destruct p as [[op c]|]; [now rewrite E|reflexivity].
  Qed.

  (* ---- the families ---- *)
  Definition g_self (a : acore) (c : condition) : bool :=
    match c with
    | CAssertMyCoinId id => bytes_eqb id (a_id a)
    | CAssertMyParentId id => bytes_eqb id (a_par a)
    | CAssertMyPuzzlehash h => bytes_eqb h (a_ph a)
    | CAssertMyAmount v => v =? a_amt a
    | _ => true
    end.
  Definition g_key (a : acore) (c : condition) : bool :=
    match c with
    | CAggSig op pk msg =>
        (if op =? AGG_SIG_UNSAFE then match check_agg_sig_unsafe_message K msg with Ok _ => true | Err _ => false end else true) && vk pk
    | CSendMessage m _ _ | CReceiveMessage _ m _ => m <? 8
    | _ => true
    end.
  Definition g_dup (a : acore) (c : condition) : bool :=
    match c with CCreateCoin ph amt _ => negb (existsb (fun x => coin_eq x ph amt) (a_cc a)) | _ => true end.
  Definition g_rs (a : acore) (c : condition) : bool :=
    match c with
    | CAssertSecondsRelative v => ogt (a_bsr a) v
    | CAssertBeforeSecondsRelative v => olt (a_sr a) v
    | _ => true
    end.
  Definition g_rh (a : acore) (c : condition) : bool :=
    match c with
    | CAssertHeightRelative v => ogt (a_bhr a) v
    | CAssertBeforeHeightRelative v => olt (a_hr a) v
    | _ => true
    end.
  Definition g_bs (a : acore) (c : condition) : bool :=
    match c with CAssertMyBirthSeconds v => oeq (a_bs a) v | _ => true end.
  Definition g_bh (a : acore) (c : condition) : bool :=
    match c with CAssertMyBirthHeight v => oeq (a_bh a) v | _ => true end.
  Definition g_cnt (a : acore) (c : condition) : bool :=
    if announce_class c then f_cost_conds fl || negb (a_cnt a =? 0) else true.

  Lemma lguard_families a c :
    lguard vk K fl a c = g_self a c && g_key a c && g_dup a c && g_rs a c && g_rh a c && g_bs a c && g_bh a c && g_cnt a c.
  Proof.
    destruct c; cbn [lguard aguard g_self g_key g_dup g_rs g_rh g_bs g_bh g_cnt announce_class];
      rewrite ?Bool.andb_true_r, ?Bool.andb_true_l; try reflexivity.
  Qed.

  Theorem lguards_families a l :
    lguards vk K fl a l = gfold g_self a l && gfold g_key a l && gfold g_dup a l && gfold g_rs a l && gfold g_rh a l && gfold g_bs a l && gfold g_bh a l && gfold g_cnt a l.
  Proof.
    rewrite lguards_gfold.
    rewrite (gfold_ext _ (fun a c => (((((((g_self a c && g_key a c) && g_dup a c) && g_rs a c) && g_rh a c) && g_bs a c) && g_bh a c) && g_cnt a c)) l lguard_families).
    now rewrite !gfold_and.
  Qed.

  (* ---- how the effects move the fields the families read ---- *)
  Lemma peffect_ids a p :
    a_id (peffect fl a p) = a_id a /\ a_par (peffect fl a p) = a_par a /\ a_ph (peffect fl a p) = a_ph a /\ a_amt (peffect fl a p) = a_amt a.
  Proof.
    destruct p as [[op c]|]; cbn [peffect]; [|repeat split; reflexivity].
    destruct c; cbn [aeffect announce_class]; repeat split; try reflexivity; destruct (f_cost_conds fl); reflexivity.
  Qed.

  (* stateless families: a plain forallb over the known conditions *)
  Lemma gfold_stateless g l : forall a,
    (forall a b c, a_id a = a_id b -> a_par a = a_par b -> a_ph a = a_ph b -> a_amt a = a_amt b -> g a c = g b c) ->
    gfold g a l = forallb (g a) (known l).
  Proof.
    induction l as [|p l IH]; intros a Hs; cbn [gfold]; [reflexivity|].
    rewrite known_cons. rewrite forallb_app.
    rewrite (IH _ Hs). destruct (peffect_ids a p) as [E1 [E2 [E3 E4]]].
    assert (Hf : forallb (g (peffect fl a p)) (known l) = forallb (g a) (known l)).
    { clear -Hs E1 E2 E3 E4. induction (known l) as [|c k IHk]; cbn [forallb]; [reflexivity|].
      rewrite IHk. f_equal. apply Hs; assumption. }
    rewrite Hf. destruct p as [[op c]|]; cbn [forallb]; [|reflexivity].
    rewrite Bool.andb_true_r. f_equal. apply Hs; reflexivity.
  Qed.

  Lemma gfold_self a l : gfold g_self a l = forallb (g_self a) (known l).
  Proof.
    apply gfold_stateless. intros x y c E1 E2 E3 E4. destruct c; cbn [g_self]; rewrite ?E1, ?E2, ?E3, ?E4; reflexivity.
  Qed.
  Lemma gfold_key a l : gfold g_key a l = forallb (g_key a) (known l).
  Proof. apply gfold_stateless. intros x y c _ _ _ _. destruct c; reflexivity. Qed.

  (* ---- stateful families ---- *)
  Definition c_sr (c : condition) := match c with CAssertSecondsRelative v => [v] | _ => [] end.
  Definition c_bsr (c : condition) := match c with CAssertBeforeSecondsRelative v => [v] | _ => [] end.
  Definition c_hr (c : condition) := match c with CAssertHeightRelative v => [v] | _ => [] end.
  Definition c_bhr (c : condition) := match c with CAssertBeforeHeightRelative v => [v] | _ => [] end.
  Definition c_bsec (c : condition) := match c with CAssertMyBirthSeconds v => [v] | _ => [] end.
  Definition c_bhei (c : condition) := match c with CAssertMyBirthHeight v => [v] | _ => [] end.

  Definition pc (p : pcond) : list condition := match p with Some (_, c) => [c] | None => [] end.

  Lemma peffect_fields a p :
    a_cc (peffect fl a p) = a_cc a ++ flat_map c_created (pc p) /\
    a_sr (peffect fl a p) = fold_left omax (flat_map c_sr (pc p)) (a_sr a) /\
    a_bsr (peffect fl a p) = fold_left omin (flat_map c_bsr (pc p)) (a_bsr a) /\
    a_hr (peffect fl a p) = fold_left omax (flat_map c_hr (pc p)) (a_hr a) /\
    a_bhr (peffect fl a p) = fold_left omin (flat_map c_bhr (pc p)) (a_bhr a) /\
    a_bs (peffect fl a p) = fold_left (fun _ v => Some v) (flat_map c_bsec (pc p)) (a_bs a) /\
    a_bh (peffect fl a p) = fold_left (fun _ v => Some v) (flat_map c_bhei (pc p)) (a_bh a) /\
    a_cnt (peffect fl a p) = if f_cost_conds fl then a_cnt a else a_cnt a - (if existsb announce_class (pc p) then 1 else 0).
  Proof.
    destruct p as [[op c]|]; cbn [peffect pc flat_map app fold_left existsb].
    - destruct c; cbn [aeffect announce_class c_created c_sr c_bsr c_hr c_bhr c_bsec c_bhei app fold_left a_with spend_budget
                       a_cc a_sr a_bsr a_hr a_bhr a_bs a_bh a_cnt orb];
        rewrite ?app_nil_r, ?N.sub_0_r; repeat split; try reflexivity; destruct (f_cost_conds fl); try reflexivity; cbn; lia.
    - cbn. rewrite app_nil_r, N.sub_0_r. repeat split; try reflexivity. destruct (f_cost_conds fl); reflexivity.
  Qed.

  (* duplicates *)
  Lemma gfold_dup l : forall a,
    NoDup (map coin_key (a_cc a)) ->
    (gfold g_dup a l = true <-> NoDup (map coin_key (a_cc a ++ flat_map c_created (known l)))).
  Proof.
    induction l as [|p l IH]; intros a Hn; cbn [gfold].
    - cbn [known flat_map]. rewrite app_nil_r. split; [intros _; exact Hn|reflexivity].
    - rewrite known_cons, flat_map_app, app_assoc. fold (pc p).
      destruct (peffect_fields a p) as [Ecc _].
      destruct p as [[op c]|]; cbn [pc flat_map app] in *; rewrite ?app_nil_r in *.
      + destruct c; cbn [g_dup c_created app] in *; rewrite ?app_nil_r in *; cbn [andb];
          try (rewrite <- Ecc; apply IH; rewrite Ecc; exact Hn).
        (* CREATE_COIN *)
        set (coin := {| nc_ph := ph; nc_amount := amount; nc_hint := hint |}) in *.
        cbn [spend_budget a_with a_cc]. rewrite Bool.andb_true_iff. split.
        * intros [G1 G2]. apply Bool.negb_true_iff in G1.
          assert (Hn' : NoDup (map coin_key (a_cc a ++ [coin]))).
          { rewrite map_app. cbn [map]. apply NoDup_snoc; [exact Hn|]. apply (existsb_coin_eq_false _ coin). exact G1. }
          rewrite <- Ecc in Hn' |- *. apply IH; assumption.
        * intros Hall.
          assert (Hn' : NoDup (map coin_key (a_cc a ++ [coin]))).
          { rewrite map_app in Hall. apply NoDup_app_l in Hall. exact Hall. }
          split.
          -- apply Bool.negb_true_iff. destruct (existsb (fun x => coin_eq x ph amount) (a_cc a)) eqn:E; [|reflexivity]. exfalso.
             apply existsb_exists in E. destruct E as [x [Hx Heq]]. unfold coin_eq in Heq.
             apply Bool.andb_true_iff in Heq. destruct Heq as [Ea Ep]. apply N.eqb_eq in Ea. apply bytes_eqb_eq in Ep.
             rewrite map_app in Hn'. cbn [map] in Hn'. apply NoDup_remove_2 in Hn'. rewrite app_nil_r in Hn'.
             apply Hn'. apply in_map_iff. exists x. split; [|exact Hx]. unfold coin_key. cbn. now rewrite Ea, Ep.
          -- rewrite <- Ecc in Hn', Hall. apply (IH _ Hn'). exact Hall.
      + cbn [andb]. rewrite <- Ecc. apply IH. rewrite Ecc. exact Hn.
  Qed.

  (* relative locks: generic over (seconds | heights) *)
  Definition ogtP (o : option N) (v : N) : Prop := match o with Some x => v < x | None => True end.
  Definition oltP (o : option N) (v : N) : Prop := match o with Some x => x < v | None => True end.
  Lemma ogt_P o v : ogt o v = true <-> ogtP o v.
  Proof. destruct o; cbn; [apply N.ltb_lt|tauto]. Qed.
  Lemma olt_P o v : olt o v = true <-> oltP o v.
  Proof. destruct o; cbn; [apply N.ltb_lt|tauto]. Qed.
  Lemma oltP_omax o v b : oltP (omax o v) b <-> oltP o b /\ v < b.
  Proof. destruct o; cbn; lia. Qed.
  Lemma ogtP_omin o b v : ogtP (omin o b) v <-> ogtP o v /\ v < b.
  Proof. destruct o; cbn; lia. Qed.

  Section Rel.
    Variables (af bf : condition -> list N) (ga gb : acore -> option N) (g : acore -> condition -> bool).
    Hypothesis shape : forall c, (af c = [] /\ bf c = []) \/ (exists v, af c = [v] /\ bf c = []) \/ (exists b, af c = [] /\ bf c = [b]).
    Hypothesis g_def : forall a c, g a c = forallb (ogt (gb a)) (af c) && forallb (olt (ga a)) (bf c).
    Hypothesis ga_eff : forall a p, ga (peffect fl a p) = fold_left omax (flat_map af (pc p)) (ga a).
    Hypothesis gb_eff : forall a p, gb (peffect fl a p) = fold_left omin (flat_map bf (pc p)) (gb a).
    Hypothesis g_budget : forall a x c, g (spend_budget a x) c = g a c.

    Lemma gfold_rel l : forall a,
      gfold g a l = true <->
      (forall v, In v (flat_map af (known l)) -> ogtP (gb a) v) /\
      (forall b, In b (flat_map bf (known l)) -> oltP (ga a) b) /\
      (forall v b, In v (flat_map af (known l)) -> In b (flat_map bf (known l)) -> v < b).
    Proof.
      induction l as [|p l IH]; intros a; cbn [gfold].
      - cbn. split; [intros _; repeat split; intros; contradiction|reflexivity].
      - rewrite known_cons, !flat_map_app. fold (pc p). rewrite Bool.andb_true_iff, IH, ga_eff, gb_eff.
        destruct p as [[op c]|]; cbn [pc flat_map app]; rewrite ?app_nil_r.
        + rewrite g_budget, g_def.
          destruct (shape c) as [[Ea Eb]|[[v [Ea Eb]]|[b [Ea Eb]]]]; rewrite Ea, Eb; cbn [forallb fold_left app andb In].
          * tauto.
          * rewrite ?Bool.andb_true_r, ?Bool.andb_true_l, ogt_P. split.
            -- intros [G [H1 [H2 H3]]]. repeat split.
               ++ intros v' [<-|Hv']; [exact G|now apply H1].
               ++ intros b Hb. apply H2 in Hb. apply oltP_omax in Hb. tauto.
               ++ intros v' b [<-|Hv'] Hb; [apply H2 in Hb; apply oltP_omax in Hb; tauto|now apply H3].
            -- intros [H1 [H2 H3]]. split; [apply H1; now left|]. repeat split.
               ++ intros v' Hv'. apply H1. now right.
               ++ intros b Hb. apply oltP_omax. split; [now apply H2|apply H3; [now left|exact Hb]].
               ++ intros v' b Hv' Hb. apply H3; [now right|exact Hb].
          * rewrite ?Bool.andb_true_r, ?Bool.andb_true_l, olt_P. split.
            -- intros [G [H1 [H2 H3]]]. repeat split.
               ++ intros v Hv. apply H1 in Hv. apply ogtP_omin in Hv. tauto.
               ++ intros b' [<-|Hb']; [exact G|now apply H2].
               ++ intros v b' Hv [<-|Hb']; [apply H1 in Hv; apply ogtP_omin in Hv; tauto|now apply H3].
            -- intros [H1 [H2 H3]]. split; [apply H2; now left|]. repeat split.
               ++ intros v Hv. apply ogtP_omin. split; [now apply H1|apply H3; [exact Hv|now left]].
               ++ intros b' Hb'. apply H2. now right.
               ++ intros v b' Hv Hb'. apply H3; [exact Hv|now right].
        + cbn [fold_left]. tauto.
    Qed.
  End Rel.

  Lemma gfold_rs a l :
    gfold g_rs a l = true <->
    (forall v, In v (flat_map c_sr (known l)) -> ogtP (a_bsr a) v) /\
    (forall b, In b (flat_map c_bsr (known l)) -> oltP (a_sr a) b) /\
    (forall v b, In v (flat_map c_sr (known l)) -> In b (flat_map c_bsr (known l)) -> v < b).
  Proof.
    apply (gfold_rel c_sr c_bsr a_sr a_bsr g_rs).
    - intros c. destruct c; cbn [c_sr c_bsr]; try (left; split; reflexivity);
        [right; left; eexists; split; reflexivity|right; right; eexists; split; reflexivity].
    - intros x c. destruct c; cbn [g_rs c_sr c_bsr forallb]; rewrite ?Bool.andb_true_r; reflexivity.
    - intros x p. now destruct (peffect_fields x p) as [_ [E _]].
    - intros x p. now destruct (peffect_fields x p) as [_ [_ [E _]]].
    - intros x y c. destruct c; reflexivity.
  Qed.

  Lemma gfold_rh a l :
    gfold g_rh a l = true <->
    (forall v, In v (flat_map c_hr (known l)) -> ogtP (a_bhr a) v) /\
    (forall b, In b (flat_map c_bhr (known l)) -> oltP (a_hr a) b) /\
    (forall v b, In v (flat_map c_hr (known l)) -> In b (flat_map c_bhr (known l)) -> v < b).
  Proof.
    apply (gfold_rel c_hr c_bhr a_hr a_bhr g_rh).
    - intros c. destruct c; cbn [c_hr c_bhr]; try (left; split; reflexivity);
        [right; left; eexists; split; reflexivity|right; right; eexists; split; reflexivity].
    - intros x c. destruct c; cbn [g_rh c_hr c_bhr forallb]; rewrite ?Bool.andb_true_r; reflexivity.
    - intros x p. now destruct (peffect_fields x p) as [_ [_ [_ [E _]]]].
    - intros x p. now destruct (peffect_fields x p) as [_ [_ [_ [_ [E _]]]]].
    - intros x y c. destruct c; reflexivity.
  Qed.

  (* birth assertions: all equal (and equal to what is already recorded) *)
  Section Birth.
    Variables (bf : condition -> list N) (gb : acore -> option N) (g : acore -> condition -> bool).
    Hypothesis shape : forall c, bf c = [] \/ exists v, bf c = [v].
    Hypothesis g_def : forall a c, g a c = forallb (oeq (gb a)) (bf c).
    Hypothesis gb_eff : forall a p, gb (peffect fl a p) = fold_left (fun _ v => Some v) (flat_map bf (pc p)) (gb a).
    Hypothesis g_budget : forall a x c, g (spend_budget a x) c = g a c.

    Lemma gfold_birth l : forall a,
      gfold g a l = true <->
      (forall v, In v (flat_map bf (known l)) -> match gb a with Some e => e = v | None => True end) /\
      (forall v w, In v (flat_map bf (known l)) -> In w (flat_map bf (known l)) -> v = w).
    Proof.
      induction l as [|p l IH]; intros a; cbn [gfold].
      - cbn. split; [intros _; split; intros; contradiction|reflexivity].
      - rewrite known_cons, !flat_map_app. fold (pc p). rewrite Bool.andb_true_iff, IH, gb_eff.
        destruct p as [[op c]|]; cbn [pc flat_map app]; rewrite ?app_nil_r.
        + rewrite g_budget, g_def. destruct (shape c) as [E|[v E]]; rewrite E; cbn [forallb fold_left app In].
          * tauto.
          * rewrite Bool.andb_true_r. split.
            -- intros [G [H1 H2]].
               assert (G' : match gb a with Some e => e = v | None => True end).
               { destruct (gb a); cbn [oeq] in G; [now apply N.eqb_eq in G|exact I]. }
               split.
               ++ intros w [<-|Hw]; [exact G'|]. specialize (H1 w Hw). cbn in H1. subst w. exact G'.
               ++ intros x y [<-|Hx] [<-|Hy]; try reflexivity.
                  ** specialize (H1 y Hy). exact H1.
                  ** specialize (H1 x Hx). now symmetry.
                  ** now apply H2.
            -- intros [H1 H2]. split.
               ++ specialize (H1 v (or_introl eq_refl)). destruct (gb a); cbn [oeq]; [now apply N.eqb_eq|reflexivity].
               ++ split.
                  ** intros w Hw. cbn. apply H2; [now left|now right].
                  ** intros x y Hx Hy. apply H2; now right.
        + cbn [fold_left]. tauto.
    Qed.
  End Birth.

  Lemma gfold_bs a l :
    gfold g_bs a l = true <->
    (forall v, In v (flat_map c_bsec (known l)) -> match a_bs a with Some e => e = v | None => True end) /\
    (forall v w, In v (flat_map c_bsec (known l)) -> In w (flat_map c_bsec (known l)) -> v = w).
  Proof.
    apply (gfold_birth c_bsec a_bs g_bs).
    - intros c. destruct c; cbn [c_bsec]; try (left; reflexivity). right. eexists; reflexivity.
    - intros x c. destruct c; cbn [g_bs c_bsec forallb]; rewrite ?Bool.andb_true_r; reflexivity.
    - intros x p. now destruct (peffect_fields x p) as [_ [_ [_ [_ [_ [E _]]]]]].
    - intros x y c. destruct c; reflexivity.
  Qed.

  Lemma gfold_bh a l :
    gfold g_bh a l = true <->
    (forall v, In v (flat_map c_bhei (known l)) -> match a_bh a with Some e => e = v | None => True end) /\
    (forall v w, In v (flat_map c_bhei (known l)) -> In w (flat_map c_bhei (known l)) -> v = w).
  Proof.
    apply (gfold_birth c_bhei a_bh g_bh).
    - intros c. destruct c; cbn [c_bhei]; try (left; reflexivity). right. eexists; reflexivity.
    - intros x c. destruct c; cbn [g_bh c_bhei forallb]; rewrite ?Bool.andb_true_r; reflexivity.
    - intros x p. now destruct (peffect_fields x p) as [_ [_ [_ [_ [_ [_ [E _]]]]]]].
    - intros x y c. destruct c; reflexivity.
  Qed.

  (* the pre-fork limit on announcement-class conditions per spend *)
  Definition class_count (l : list condition) : N := N.of_nat (length (filter announce_class l)).

  Lemma gfold_cnt l : forall a,
    gfold g_cnt a l = true <-> f_cost_conds fl = true \/ class_count (known l) <= a_cnt a.
  Proof.
    induction l as [|p l IH]; intros a; cbn [gfold].
    - unfold class_count. cbn. split; [intros _; right; lia|reflexivity].
    - rewrite known_cons. unfold class_count. rewrite filter_app, app_length. fold (pc p).
      rewrite Bool.andb_true_iff, IH.
      destruct (peffect_fields a p) as [_ [_ [_ [_ [_ [_ [_ Ec]]]]]]]. rewrite Ec.
      destruct (f_cost_conds fl) eqn:Ecc.
      + split; [intros _; now left|]. intros _. split; [|now left].
        destruct p as [[op c]|]; [|reflexivity]. unfold g_cnt. rewrite Ecc. destruct (announce_class c); reflexivity.
      + unfold class_count. destruct p as [[op c]|]; cbn [pc filter existsb length app].
        * unfold g_cnt. rewrite Ecc. cbn [spend_budget a_with a_cnt orb].
          destruct (announce_class c); cbn [length orb negb].
          -- destruct (N.eqb_spec (a_cnt a) 0); cbn [negb]; split.
             ++ intros [Hx _]; discriminate.
             ++ intros [Hx|Hx]; [discriminate|lia].
             ++ intros [_ [Hx|Hx]]; [discriminate|right; lia].
             ++ intros [Hx|Hx]; [discriminate|]. split; [reflexivity|right; lia].
          -- split; [intros [_ [Hx|Hx]]; [discriminate|right; lia]|intros [Hx|Hx]; [discriminate|split; [reflexivity|right; lia]]].
        * split; [intros [_ [Hx|Hx]]; [discriminate|right; cbn; lia]|intros [Hx|Hx]; [discriminate|split; [reflexivity|right; cbn in *; lia]]].
  Qed.

  (* ---------- the local rules of one spend, declaratively ---------- *)
  Variable H : bytes -> bytes.

  Definition self_ok (p : pspend) (c : condition) : Prop :=
    match c with
    | CAssertMyCoinId id => id = pid H p
    | CAssertMyParentId id => id = ps_parent p
    | CAssertMyPuzzlehash h => h = ps_ph p
    | CAssertMyAmount v => v = ps_amount p
    | _ => True
    end.

  Definition key_ok (c : condition) : Prop :=
    match c with
    | CAggSig op pk msg => vk pk = true /\ (op = AGG_SIG_UNSAFE -> check_agg_sig_unsafe_message K msg = Ok tt)
    | CSendMessage m _ _ | CReceiveMessage _ m _ => m < 8
    | _ => True
    end.

  Record LocalRules (p : pspend) : Prop := {
    lr_self : forall c, In c (kn p) -> self_ok p c;
    lr_key : forall c, In c (kn p) -> key_ok c;
    lr_nodup : NoDup (map coin_key (flat_map c_created (kn p)));
    lr_seconds : forall v b, In v (flat_map c_sr (kn p)) -> In b (flat_map c_bsr (kn p)) -> v < b;
    lr_heights : forall v b, In v (flat_map c_hr (kn p)) -> In b (flat_map c_bhr (kn p)) -> v < b;
    lr_birth_seconds : forall v w, In v (flat_map c_bsec (kn p)) -> In w (flat_map c_bsec (kn p)) -> v = w;
    lr_birth_height : forall v w, In v (flat_map c_bhei (kn p)) -> In w (flat_map c_bhei (kn p)) -> v = w;
    lr_count : f_cost_conds fl = true \/ class_count (kn p) <= ANNOUNCE_LIMIT
  }.

  Lemma g_self_ok p budget fee c : g_self (acore0 H fl p budget fee) c = true <-> self_ok p c.
  Proof.
    destruct c; cbn [g_self self_ok acore0 a_id a_par a_ph a_amt]; try tauto;
      try apply bytes_eqb_eq; apply N.eqb_eq.
  Qed.

  Lemma g_key_ok a c : g_key a c = true <-> key_ok c.
  Proof.
    destruct c; cbn [g_key key_ok]; try tauto; try apply N.ltb_lt.
    rewrite Bool.andb_true_iff. destruct (N.eqb_spec op AGG_SIG_UNSAFE) as [->|Hne].
    - destruct (check_agg_sig_unsafe_message K msg) as [[]|e].
      + split; [intros [_ Hv]; split; [exact Hv|reflexivity]|intros [Hv _]; split; [reflexivity|exact Hv]].
      + split; [intros [Hx _]; discriminate|intros [_ Hx]; specialize (Hx eq_refl); discriminate].
    - split; [intros [_ Hv]; split; [exact Hv|intros E; contradiction]|intros [Hv _]; split; [reflexivity|exact Hv]].
  Qed.

  Theorem lguards_local_rules p budget fee :
    lguards vk K fl (acore0 H fl p budget fee) (ps_conds p) = true <-> LocalRules p.
  Proof.
    rewrite lguards_families, !Bool.andb_true_iff.
    rewrite gfold_self, gfold_key, forallb_forall, forallb_forall.
    rewrite (gfold_dup (ps_conds p) (acore0 H fl p budget fee)) by (cbn; constructor).
    rewrite gfold_rs, gfold_rh, gfold_bs, gfold_bh, gfold_cnt.
    cbn [acore0 a_cc a_sr a_bsr a_hr a_bhr a_bs a_bh a_cnt app ogtP oltP]. fold (kn p).
    split.
    - intros [[[[[[[S Ky] D] [_ [_ R1]]] [_ [_ R2]]] [_ B1]] [_ B2]] Cn].
      constructor; try assumption.
      + intros c Hc. apply (g_self_ok p budget fee). now apply S.
      + intros c Hc. apply (g_key_ok (acore0 H fl p budget fee)). now apply Ky.
    - intros [S Ky D R1 R2 B1 B2 Cn]. repeat split; try assumption; try (intros; exact I).
      + intros c Hc. apply g_self_ok. now apply S.
      + intros c Hc. apply g_key_ok. now apply Ky.
  Qed.
End LR.
