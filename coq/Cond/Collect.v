(* Cond/Collect.v — what the validation state collects while the conditions of a bundle are
   processed: every list component of the state is exactly the contributions of the conditions
   seen so far (in reverse order).  This is the bridge from the state machine to statements
   "for every assertion in the bundle there is a matching counterpart in the bundle". *)
From ChiaV.Base Require Import Bytes.
From ChiaV.Clvm Require Import Sexp Ints.
From ChiaV.Gen Require Import Opcodes Ladders.
From ChiaV.Cond Require Import Model Invariants Syntax.
Open Scope N_scope.

(* the collected lists, plus what identifies the spend being processed *)
Record gcore := {
  g_ann_coin : list (bytes * bytes); g_ann_puzzle : list (bytes * bytes);
  g_assert_coin : list bytes; g_assert_puzzle : list bytes;
  g_messages : list message;
  g_conc_spend : list bytes; g_conc_puzzle : list bytes;
  g_eph : list nat; g_cc : list new_coin;
  g_id : bytes; g_par : bytes; g_ph : bytes; g_amt : N; g_idx : nat;
  g_spent : list (bytes * nat); g_spentp : list bytes; g_done : list spend
}.

Definition gcore_of (st : lstate) : gcore :=
  let p := l_state st in let s := l_spend st in
  {| g_ann_coin := s_announce_coin p; g_ann_puzzle := s_announce_puzzle p;
     g_assert_coin := s_assert_coin p; g_assert_puzzle := s_assert_puzzle p;
     g_messages := s_messages p;
     g_conc_spend := s_assert_concurrent_spend p; g_conc_puzzle := s_assert_concurrent_puzzle p;
     g_eph := s_assert_ephemeral p; g_cc := sp_create_coin s;
     g_id := sp_coin_id s; g_par := sp_parent s; g_ph := sp_ph s; g_amt := sp_amount s;
     g_idx := length (b_spends_rev (l_ret st));
     g_spent := s_spent_coins p; g_spentp := s_spent_puzzles p; g_done := b_spends_rev (l_ret st) |}.

Definition self_id (mode : N) (g : gcore) : spend_id :=
  match spend_id_from_self mode (g_par g) (g_ph g) (g_amt g) (g_id g) with Ok s => s | Err _ => SidNone end.

(* the contribution of one applied condition *)
Definition geffect (g : gcore) (c : condition) : gcore :=
  let upd ac ap asc asp ms cs cp e :=
    let cc := g_cc g in
    {| g_ann_coin := ac; g_ann_puzzle := ap; g_assert_coin := asc; g_assert_puzzle := asp; g_messages := ms;
       g_conc_spend := cs; g_conc_puzzle := cp; g_eph := e; g_cc := cc;
       g_id := g_id g; g_par := g_par g; g_ph := g_ph g; g_amt := g_amt g; g_idx := g_idx g;
         g_spent := g_spent g; g_spentp := g_spentp g; g_done := g_done g |} in
  match c with
  | CCreateCoinAnnouncement msg =>
      upd ((g_id g, msg) :: g_ann_coin g) (g_ann_puzzle g) (g_assert_coin g) (g_assert_puzzle g) (g_messages g)
          (g_conc_spend g) (g_conc_puzzle g) (g_eph g)
  | CCreatePuzzleAnnouncement msg =>
      upd (g_ann_coin g) ((g_ph g, msg) :: g_ann_puzzle g) (g_assert_coin g) (g_assert_puzzle g) (g_messages g)
          (g_conc_spend g) (g_conc_puzzle g) (g_eph g)
  | CAssertCoinAnnouncement id =>
      upd (g_ann_coin g) (g_ann_puzzle g) (id :: g_assert_coin g) (g_assert_puzzle g) (g_messages g)
          (g_conc_spend g) (g_conc_puzzle g) (g_eph g)
  | CAssertPuzzleAnnouncement id =>
      upd (g_ann_coin g) (g_ann_puzzle g) (g_assert_coin g) (id :: g_assert_puzzle g) (g_messages g)
          (g_conc_spend g) (g_conc_puzzle g) (g_eph g)
  | CAssertConcurrentSpend id =>
      upd (g_ann_coin g) (g_ann_puzzle g) (g_assert_coin g) (g_assert_puzzle g) (g_messages g)
          (id :: g_conc_spend g) (g_conc_puzzle g) (g_eph g)
  | CAssertConcurrentPuzzle id =>
      upd (g_ann_coin g) (g_ann_puzzle g) (g_assert_coin g) (g_assert_puzzle g) (g_messages g)
          (g_conc_spend g) (id :: g_conc_puzzle g) (g_eph g)
  | CAssertEphemeral =>
      upd (g_ann_coin g) (g_ann_puzzle g) (g_assert_coin g) (g_assert_puzzle g) (g_messages g)
          (g_conc_spend g) (g_conc_puzzle g) (g_idx g :: g_eph g)
  | CSendMessage src_mode dst msg =>
      upd (g_ann_coin g) (g_ann_puzzle g) (g_assert_coin g) (g_assert_puzzle g)
          ({| m_src := self_id src_mode g; m_dst := dst; m_msg := msg; m_counter := 1%Z |} :: g_messages g)
          (g_conc_spend g) (g_conc_puzzle g) (g_eph g)
  | CReceiveMessage src dst_mode msg =>
      upd (g_ann_coin g) (g_ann_puzzle g) (g_assert_coin g) (g_assert_puzzle g)
          ({| m_src := src; m_dst := self_id dst_mode g; m_msg := msg; m_counter := (-1)%Z |} :: g_messages g)
          (g_conc_spend g) (g_conc_puzzle g) (g_eph g)
  | CCreateCoin ph amount hint =>
      {| g_ann_coin := g_ann_coin g; g_ann_puzzle := g_ann_puzzle g; g_assert_coin := g_assert_coin g;
         g_assert_puzzle := g_assert_puzzle g; g_messages := g_messages g; g_conc_spend := g_conc_spend g;
         g_conc_puzzle := g_conc_puzzle g; g_eph := g_eph g;
         g_cc := g_cc g ++ [{| nc_ph := ph; nc_amount := amount; nc_hint := hint |}];
         g_id := g_id g; g_par := g_par g; g_ph := g_ph g; g_amt := g_amt g; g_idx := g_idx g;
         g_spent := g_spent g; g_spentp := g_spentp g; g_done := g_done g |}
  | _ => g
  end.

Lemma gcore_eta g :
  {| g_ann_coin := g_ann_coin g; g_ann_puzzle := g_ann_puzzle g; g_assert_coin := g_assert_coin g;
     g_assert_puzzle := g_assert_puzzle g; g_messages := g_messages g; g_conc_spend := g_conc_spend g;
     g_conc_puzzle := g_conc_puzzle g; g_eph := g_eph g; g_cc := g_cc g; g_id := g_id g; g_par := g_par g; g_ph := g_ph g;
     g_amt := g_amt g; g_idx := g_idx g;
         g_spent := g_spent g; g_spentp := g_spentp g; g_done := g_done g |} = g.
Proof. destruct g; reflexivity. Qed.

Lemma charge_g st c st' : charge st c = Ok st' -> gcore_of st' = gcore_of st.
Proof. unfold charge. intros H. break. reflexivity. Qed.

Lemma decrement_g fl st st' : decrement fl st = Ok st' -> gcore_of st' = gcore_of st.
Proof. unfold decrement. intros H. break; reflexivity. Qed.

Lemma decrement_fields fl st st' :
  decrement fl st = Ok st' -> l_state st' = l_state st /\ l_spend st' = l_spend st /\ l_ret st' = l_ret st.
Proof. unfold decrement. intros H. break; repeat split; reflexivity. Qed.

Lemma precharge_g fl st op st' : precharge fl st op = Ok st' -> gcore_of st' = gcore_of st.
Proof.
  unfold precharge. intros H.
  repeat match goal with H : (if ?c then _ else _) = Ok _ |- _ => destruct c end;
    try (apply charge_g in H; exact H); inversion H; reflexivity.
Qed.

Lemma visit_g V st cva : gcore_of (visit V st cva) = gcore_of st.
Proof. unfold visit. destruct V; [reflexivity|]. destruct (mempool_condition _ _ _ _). reflexivity. Qed.

Ltac split_in H :=
  repeat (match type of H with
          | context [if ?c then _ else _] => destruct c
          | context [match ?x with Some _ => _ | None => _ end] => destruct x
          | context [check_agg_sig_unsafe_message ?k ?m] => destruct (check_agg_sig_unsafe_message k m) as [[]|]
          end; cbn [bind] in H).

Lemma apply_condition_g vk K fl st cva st' :
  apply_condition vk K fl st cva = Ok st' -> gcore_of st' = geffect (gcore_of st) cva.
Proof.
  intros H.
  destruct cva; cbn [apply_condition] in H; cbn [geffect];
    try (unfold mark_not_ephemeral, push_pair in H; split_in H; try discriminate H; inversion H; subst;
         unfold gcore_of; cbn; reflexivity);
    try (destruct (decrement fl st) as [st1|] eqn:Ed; cbn [bind] in H; [|discriminate H];
         destruct (decrement_fields _ _ _ Ed) as [F1 [F2 F3]];
         unfold self_id; cbn [gcore_of g_par g_ph g_amt g_id];
         try (match type of H with bind ?r _ = _ => destruct r; cbn [bind] in H; [|discriminate H] end);
         inversion H; subst; unfold gcore_of; cbn; rewrite ?F1, ?F2, ?F3; reflexivity).
  (* softfork *)
  apply charge_g in H. exact H.
Qed.

(* ---------- folding the contributions ---------- *)
Definition known (l : list pcond) : list condition :=
  flat_map (fun pc => match pc with Some (_, c) => [c] | None => [] end) l.

Lemma sem_step_g vk K fl V st p st' :
  sem_step vk K fl V st p = Ok st' ->
  gcore_of st' = match p with Some (_, c) => geffect (gcore_of st) c | None => gcore_of st end.
Proof.
  destruct p as [[op c]|]; cbn [sem_step]; intros H.
  - destruct (precharge fl st op) as [st1|] eqn:E; cbn [bind] in H; [|discriminate].
    apply apply_condition_g in H. rewrite visit_g in H. apply precharge_g in E. now rewrite E in H.
  - destruct (f_cost_conds fl); [now apply charge_g in H|now inversion H].
Qed.

Lemma sem_fold_g vk K fl V l : forall st st',
  sem_fold vk K fl V st l = Ok st' -> gcore_of st' = fold_left geffect (known l) (gcore_of st).
Proof.
  induction l as [|p l IH]; intros st st' H; cbn [sem_fold] in H.
  - inversion H; reflexivity.
  - destruct (sem_step vk K fl V st p) as [st1|] eqn:E; cbn [bind] in H; [|discriminate].
    apply IH in H. apply sem_step_g in E. rewrite H, E.
    unfold known. cbn [flat_map]. destruct p as [[op c]|]; reflexivity.
Qed.

(* per-component contributions of one condition, given the identity of its spend *)
Section Contrib.
  Variables (id par ph : bytes) (amt : N) (idx : nat).
  Definition sid (mode : N) : spend_id :=
    match spend_id_from_self mode par ph amt id with Ok s => s | Err _ => SidNone end.
  Definition c_ann_coin (c : condition) := match c with CCreateCoinAnnouncement m => [(id, m)] | _ => [] end.
  Definition c_ann_puzzle (c : condition) := match c with CCreatePuzzleAnnouncement m => [(ph, m)] | _ => [] end.
  Definition c_assert_coin (c : condition) := match c with CAssertCoinAnnouncement i => [i] | _ => [] end.
  Definition c_assert_puzzle (c : condition) := match c with CAssertPuzzleAnnouncement i => [i] | _ => [] end.
  Definition c_conc_spend (c : condition) := match c with CAssertConcurrentSpend i => [i] | _ => [] end.
  Definition c_conc_puzzle (c : condition) := match c with CAssertConcurrentPuzzle i => [i] | _ => [] end.
  Definition c_eph (c : condition) := match c with CAssertEphemeral => [idx] | _ => [] end.
  Definition c_created (c : condition) :=
    match c with CCreateCoin p a h => [{| nc_ph := p; nc_amount := a; nc_hint := h |}] | _ => [] end.
  Definition c_messages (c : condition) :=
    match c with
    | CSendMessage m dst msg => [{| m_src := sid m; m_dst := dst; m_msg := msg; m_counter := 1%Z |}]
    | CReceiveMessage src m msg => [{| m_src := src; m_dst := sid m; m_msg := msg; m_counter := (-1)%Z |}]
    | _ => []
    end.
End Contrib.

Definition collected (g : gcore) (l : list condition) : gcore :=
  {| g_ann_coin := rev (flat_map (c_ann_coin (g_id g)) l) ++ g_ann_coin g;
     g_ann_puzzle := rev (flat_map (c_ann_puzzle (g_ph g)) l) ++ g_ann_puzzle g;
     g_assert_coin := rev (flat_map c_assert_coin l) ++ g_assert_coin g;
     g_assert_puzzle := rev (flat_map c_assert_puzzle l) ++ g_assert_puzzle g;
     g_messages := rev (flat_map (c_messages (g_id g) (g_par g) (g_ph g) (g_amt g)) l) ++ g_messages g;
     g_conc_spend := rev (flat_map c_conc_spend l) ++ g_conc_spend g;
     g_conc_puzzle := rev (flat_map c_conc_puzzle l) ++ g_conc_puzzle g;
     g_eph := rev (flat_map (c_eph (g_idx g)) l) ++ g_eph g;
     g_cc := g_cc g ++ flat_map c_created l;
     g_id := g_id g; g_par := g_par g; g_ph := g_ph g; g_amt := g_amt g; g_idx := g_idx g;
         g_spent := g_spent g; g_spentp := g_spentp g; g_done := g_done g |}.

Lemma rev_cons_app {A} (x : A) l y : rev (x :: l) ++ y = rev l ++ x :: y.
Proof. cbn [rev]. now rewrite <- app_assoc. Qed.

Lemma fold_geffect_collected l : forall g, fold_left geffect l g = collected g l.
Proof.
  induction l as [|c l IH]; intros g.
  - cbn [fold_left]. unfold collected. cbn [flat_map rev app]. rewrite app_nil_r. symmetry. apply gcore_eta.
  - cbn [fold_left]. rewrite IH. unfold collected.
    destruct c; cbn [geffect flat_map c_ann_coin c_ann_puzzle c_assert_coin c_assert_puzzle c_conc_spend c_conc_puzzle
                     c_eph c_messages c_created app g_cc g_ann_coin g_ann_puzzle g_assert_coin g_assert_puzzle g_messages g_conc_spend
                     g_conc_puzzle g_eph g_id g_par g_ph g_amt g_idx];
      rewrite ?rev_cons_app, ?app_nil_r, <- ?app_assoc; try reflexivity.
Qed.

(* ---------- one spend ---------- *)
Section Bundle.
  Variable vk : bytes -> bool.
  Variable H : bytes -> bytes.
  Variable K : consts.
  Variable fl : cflags.
  Variable V : visitor.

  Definition pid (p : pspend) : bytes := H (ps_parent p ++ ps_ph p ++ ps_amount_atom p).
  Definition kn (p : pspend) : list condition := known (ps_conds p).

  Lemma spend_sem_collect ret state mc cc p ret2 state2 mc2 :
    spend_sem vk H K fl V ret state mc cc p = Ok (ret2, state2, mc2) ->
    exists st2,
      lookup_idx (pid p) (s_spent_coins state) = None /\
      ret2 = b_with (l_ret st2) (post_spend V (l_spend st2) :: b_spends_rev (l_ret st2))
                    (b_reserve_fee (l_ret st2)) (b_height_absolute (l_ret st2)) (b_seconds_absolute (l_ret st2))
                    (b_agg_sig_unsafe (l_ret st2)) (b_before_height_absolute (l_ret st2))
                    (b_before_seconds_absolute (l_ret st2)) (b_cond_cost (l_ret st2)) (b_removal (l_ret st2))
                    (b_addition (l_ret st2)) /\
      state2 = l_state st2 /\
      gcore_of st2 =
        collected {| g_ann_coin := s_announce_coin state; g_ann_puzzle := s_announce_puzzle state;
                     g_assert_coin := s_assert_coin state; g_assert_puzzle := s_assert_puzzle state;
                     g_messages := s_messages state; g_conc_spend := s_assert_concurrent_spend state;
                     g_conc_puzzle := s_assert_concurrent_puzzle state; g_eph := s_assert_ephemeral state;
                     g_cc := []; g_id := pid p; g_par := ps_parent p; g_ph := ps_ph p; g_amt := ps_amount p;
                     g_idx := length (b_spends_rev ret);
                     g_spent := (pid p, length (b_spends_rev ret)) :: s_spent_coins state;
                     g_spentp := ps_ph p :: s_spent_puzzles state; g_done := b_spends_rev ret |} (kn p).
  Proof.
    unfold spend_sem. fold (pid p). intros Hs.
    destruct (lookup_idx (pid p) (s_spent_coins state)) eqn:El; [discriminate|].
    match type of Hs with bind ?r _ = _ => destruct r as [st1|] eqn:E1; cbn [bind] in Hs; [|discriminate] end.
    match type of Hs with bind ?r _ = _ => destruct r as [st2|] eqn:E2; cbn [bind] in Hs; [|discriminate] end.
    inversion Hs; subst ret2 state2 mc2; clear Hs.
    exists st2. repeat split.
    apply sem_fold_g in E2. rewrite fold_geffect_collected in E2. rewrite E2. f_equal.
    match type of E1 with (if _ then charge ?s _ else _) = _ => set (st0 := s) in * end.
    assert (G1 : gcore_of st1 = gcore_of st0).
    { destruct (f_cost_conds fl); [now apply charge_g in E1|now inversion E1]. }
    transitivity (gcore_of st1); [destruct V; reflexivity|]. rewrite G1. reflexivity.
  Qed.
End Bundle.

(* ---------- the whole bundle ---------- *)
Definition enum {A} (l : list A) : list (nat * A) := combine (seq 0 (length l)) l.

Lemma combine_app_eqlen {A B} (a1 a2 : list A) (b1 b2 : list B) :
  length a1 = length b1 -> combine (a1 ++ a2) (b1 ++ b2) = combine a1 b1 ++ combine a2 b2.
Proof.
  revert b1. induction a1 as [|x a1 IH]; intros [|y b1] Hl; try discriminate; [reflexivity|].
  cbn [app combine]. f_equal. apply IH. now inversion Hl.
Qed.

Lemma enum_snoc {A} (l : list A) x : enum (l ++ [x]) = enum l ++ [(length l, x)].
Proof.
  unfold enum. rewrite app_length. cbn [length]. rewrite seq_app. cbn [seq plus].
  rewrite combine_app_eqlen by (now rewrite seq_length). reflexivity.
Qed.

Lemma flat_map_snoc {A B} (f : A -> list B) l x : rev (flat_map f (l ++ [x])) = rev (f x) ++ rev (flat_map f l).
Proof. rewrite flat_map_app. cbn [flat_map]. rewrite app_nil_r. apply rev_app_distr. Qed.

Section Coll.
  Variable vk : bytes -> bool.
  Variable H : bytes -> bytes.
  Variable K : consts.
  Variable fl : cflags.
  Variable V : visitor.

  Definition sident (s : spend) := (sp_coin_id s, sp_parent s, sp_ph s, sp_amount s, sp_create_coin s).
  Definition pident (p : pspend) := (pid H p, ps_parent p, ps_ph p, ps_amount p, flat_map c_created (kn p)).

  Record Coll (done : list pspend) (ret : bundle) (state : pstate) : Prop := {
    co_len : length (b_spends_rev ret) = length done;
    co_ann_coin : s_announce_coin state = rev (flat_map (fun p => flat_map (c_ann_coin (pid H p)) (kn p)) done);
    co_ann_puzzle : s_announce_puzzle state = rev (flat_map (fun p => flat_map (c_ann_puzzle (ps_ph p)) (kn p)) done);
    co_assert_coin : s_assert_coin state = rev (flat_map (fun p => flat_map c_assert_coin (kn p)) done);
    co_assert_puzzle : s_assert_puzzle state = rev (flat_map (fun p => flat_map c_assert_puzzle (kn p)) done);
    co_conc_spend : s_assert_concurrent_spend state = rev (flat_map (fun p => flat_map c_conc_spend (kn p)) done);
    co_conc_puzzle : s_assert_concurrent_puzzle state = rev (flat_map (fun p => flat_map c_conc_puzzle (kn p)) done);
    co_messages : s_messages state =
      rev (flat_map (fun p => flat_map (c_messages (pid H p) (ps_parent p) (ps_ph p) (ps_amount p)) (kn p)) done);
    co_eph : s_assert_ephemeral state = rev (flat_map (fun ip => flat_map (c_eph (fst ip)) (kn (snd ip))) (enum done));
    co_spent : s_spent_coins state = rev (map (fun ip => (pid H (snd ip), fst ip)) (enum done));
    co_spentp : s_spent_puzzles state = rev (map ps_ph done);
    co_spends : map sident (b_spends_rev ret) = rev (map pident done)
  }.

  Lemma Coll_empty : Coll [] empty_bundle empty_state.
  Proof. constructor; reflexivity. Qed.

  Lemma spend_sem_Coll done ret state mc cc p ret2 state2 mc2 :
    spend_sem vk H K fl V ret state mc cc p = Ok (ret2, state2, mc2) ->
    Coll done ret state -> Coll (done ++ [p]) ret2 state2.
  Proof.
    intros Hs C. destruct (spend_sem_collect _ _ _ _ _ _ _ _ _ _ _ _ _ Hs) as [st2 [Hl [-> [-> G]]]].
    destruct C as [Clen C1 C2 C3 C4 C5 C6 C7 C8 C9 C10 C11].
    pose proof (f_equal g_ann_coin G) as G1. pose proof (f_equal g_ann_puzzle G) as G2.
    pose proof (f_equal g_assert_coin G) as G3. pose proof (f_equal g_assert_puzzle G) as G4.
    pose proof (f_equal g_conc_spend G) as G5. pose proof (f_equal g_conc_puzzle G) as G6.
    pose proof (f_equal g_messages G) as G7. pose proof (f_equal g_eph G) as G8.
    pose proof (f_equal g_spent G) as G9. pose proof (f_equal g_spentp G) as G10.
    pose proof (f_equal g_done G) as G11. pose proof (f_equal g_cc G) as G12.
    pose proof (f_equal g_id G) as G13. pose proof (f_equal g_par G) as G14.
    pose proof (f_equal g_ph G) as G15. pose proof (f_equal g_amt G) as G16.
    unfold collected, gcore_of in G1, G2, G3, G4, G5, G6, G7, G8, G9, G10, G11, G12, G13, G14, G15, G16.
    cbn [g_ann_coin g_ann_puzzle g_assert_coin g_assert_puzzle g_conc_spend g_conc_puzzle g_messages g_eph g_spent
         g_spentp g_done g_cc g_id g_par g_ph g_amt g_idx] in G1, G2, G3, G4, G5, G6, G7, G8, G9, G10, G11, G12, G13, G14, G15, G16.
    constructor; cbn [b_with b_spends_rev].
    - cbn [length]. rewrite G11, app_length. cbn [length]. lia.
    - rewrite G1, C1, flat_map_snoc. reflexivity.
    - rewrite G2, C2, flat_map_snoc. reflexivity.
    - rewrite G3, C3, flat_map_snoc. reflexivity.
    - rewrite G4, C4, flat_map_snoc. reflexivity.
    - rewrite G5, C5, flat_map_snoc. reflexivity.
    - rewrite G6, C6, flat_map_snoc. reflexivity.
    - rewrite G7, C7, flat_map_snoc. reflexivity.
    - rewrite G8, C8, enum_snoc, flat_map_snoc. cbn [fst snd]. rewrite Clen. reflexivity.
    - rewrite G9, C9, enum_snoc, map_app, rev_app_distr. cbn [map rev app fst snd]. rewrite Clen. reflexivity.
    - rewrite G10, C10, map_app, rev_app_distr. reflexivity.
    - cbn [map]. rewrite G11, C11, map_app, rev_app_distr. cbn [map rev app]. f_equal.
      unfold sident, pident.
      destruct (post_spend_fields V (l_spend st2)) as [Pcc [Pamt [Ppar [Pph Pid]]]].
      rewrite Pcc, Pamt, Ppar, Pph, Pid, G12, G13, G14, G15, G16. reflexivity.
  Qed.

  Lemma spends_sem_Coll ps : forall done ret state cl sl cc ret' state' cl',
    spends_sem vk H K fl V ps ret state cl sl cc = Ok (ret', state', cl') ->
    Coll done ret state -> Coll (done ++ ps) ret' state'.
  Proof.
    induction ps as [|p ps IH]; intros done ret state cl sl cc ret' state' cl' Hs C; cbn [spends_sem] in Hs.
    - inversion Hs; subst. now rewrite app_nil_r.
    - assert (Hgo : (r <- spend_sem vk H K fl V ret state cl cc p ;;
                     let '(ret1, state1, cost1) := r in
                     spends_sem vk H K fl V ps ret1 state1 cost1 (option_map N.pred sl) cc) = Ok (ret', state', cl')).
      { destruct sl as [[|q]|]; [discriminate|exact Hs|exact Hs]. }
      destruct (spend_sem vk H K fl V ret state cl cc p) as [[[ret1 state1] cost1]|] eqn:E; cbn [bind] in Hgo; [|discriminate].
      replace (done ++ p :: ps) with ((done ++ [p]) ++ ps) by (rewrite <- app_assoc; reflexivity).
      eapply IH; [exact Hgo|]. eapply spend_sem_Coll; eassumption.
  Qed.
End Coll.

(* ---------- spends carrying relative / birth conditions ---------- *)
Definition relative_class (c : condition) : bool :=
  match c with
  | CAssertSecondsRelative _ | CAssertHeightRelative _ | CAssertBeforeSecondsRelative _
  | CAssertBeforeHeightRelative _ | CAssertMyBirthSeconds _ | CAssertMyBirthHeight _
  | CSkipRelativeCondition => true
  | _ => false
  end.

Record rcore := { r_neph : list nat; r_has : bool; r_idx : nat }.
Definition rcore_of (st : lstate) : rcore :=
  {| r_neph := s_assert_not_ephemeral (l_state st); r_has := sp_has_relative (l_spend st);
     r_idx := length (b_spends_rev (l_ret st)) |}.
Definition reffect (r : rcore) (c : condition) : rcore :=
  if relative_class c then
    (if r_has r then r else {| r_neph := r_idx r :: r_neph r; r_has := true; r_idx := r_idx r |})
  else r.

Lemma rcore_eta r : {| r_neph := r_neph r; r_has := r_has r; r_idx := r_idx r |} = r.
Proof. destruct r; reflexivity. Qed.

Lemma charge_r st c st' : charge st c = Ok st' -> rcore_of st' = rcore_of st.
Proof. unfold charge. intros H. break. reflexivity. Qed.
Lemma precharge_r fl st op st' : precharge fl st op = Ok st' -> rcore_of st' = rcore_of st.
Proof.
  unfold precharge. intros H.
  repeat match goal with H : (if ?c then _ else _) = Ok _ |- _ => destruct c end;
    try (apply charge_r in H; exact H); inversion H; reflexivity.
Qed.
Lemma visit_r V st cva : rcore_of (visit V st cva) = rcore_of st.
Proof. unfold visit. destruct V; [reflexivity|]. destruct (mempool_condition _ _ _ _). reflexivity. Qed.

Lemma apply_condition_r vk K fl st cva st' :
  apply_condition vk K fl st cva = Ok st' -> rcore_of st' = reffect (rcore_of st) cva.
Proof.
  intros H. unfold reffect. cbn [rcore_of r_has r_idx r_neph].
  destruct cva; cbn [apply_condition relative_class] in H |- *;
    try (apply charge_r in H; exact H);
    try (unfold mark_not_ephemeral, push_pair in H;
         cbn [l_spend l_state l_ret with_spend with_ret with_state sp_has_relative sp_set_locks sp_set_lists sp_set_flags] in H;
         destruct (sp_has_relative (l_spend st)) eqn:Eh;
         split_in H; try discriminate H; inversion H; subst; unfold rcore_of; cbn; rewrite ?Eh; reflexivity);
    try (destruct (decrement fl st) as [st1|] eqn:Ed; cbn [bind] in H; [|discriminate H];
         destruct (decrement_fields _ _ _ Ed) as [F1 [F2 F3]];
         try (match type of H with bind ?r _ = _ => destruct r; cbn [bind] in H; [|discriminate H] end);
         inversion H; subst; unfold rcore_of; cbn; rewrite ?F1, ?F2, ?F3; reflexivity).
Qed.

Lemma sem_step_r vk K fl V st p st' :
  sem_step vk K fl V st p = Ok st' ->
  rcore_of st' = match p with Some (_, c) => reffect (rcore_of st) c | None => rcore_of st end.
Proof.
  destruct p as [[op c]|]; cbn [sem_step]; intros H.
  - destruct (precharge fl st op) as [st1|] eqn:E; cbn [bind] in H; [|discriminate].
    apply apply_condition_r in H. rewrite visit_r in H. apply precharge_r in E. now rewrite E in H.
  - destruct (f_cost_conds fl); [now apply charge_r in H|now inversion H].
Qed.

Lemma sem_fold_r vk K fl V l : forall st st',
  sem_fold vk K fl V st l = Ok st' -> rcore_of st' = fold_left reffect (known l) (rcore_of st).
Proof.
  induction l as [|p l IH]; intros st st' H; cbn [sem_fold] in H.
  - inversion H; reflexivity.
  - destruct (sem_step vk K fl V st p) as [st1|] eqn:E; cbn [bind] in H; [|discriminate].
    apply IH in H. apply sem_step_r in E. rewrite H, E.
    unfold known. cbn [flat_map]. destruct p as [[op c]|]; reflexivity.
Qed.

Lemma fold_reffect l : forall r,
  fold_left reffect l r =
  {| r_neph := if negb (r_has r) && existsb relative_class l then r_idx r :: r_neph r else r_neph r;
     r_has := r_has r || existsb relative_class l; r_idx := r_idx r |}.
Proof.
  induction l as [|c l IH]; intros r; cbn [fold_left existsb].
  - rewrite Bool.andb_false_r, Bool.orb_false_r. symmetry. apply rcore_eta.
  - rewrite IH. unfold reffect. destruct r as [n h i]. cbn [r_has r_idx r_neph].
    destruct (relative_class c); destruct h; destruct (existsb relative_class l); reflexivity.
Qed.

Section RColl.
  Variable vk : bytes -> bool.
  Variable H : bytes -> bytes.
  Variable K : consts.
  Variable fl : cflags.
  Variable V : visitor.

  Definition rel_idx (ip : nat * pspend) : list nat := if existsb relative_class (kn (snd ip)) then [fst ip] else [].

  Definition RColl (done : list pspend) (ret : bundle) (state : pstate) : Prop :=
    length (b_spends_rev ret) = length done /\
    s_assert_not_ephemeral state = rev (flat_map rel_idx (enum done)) /\
    map sp_has_relative (b_spends_rev ret) = rev (map (fun p => existsb relative_class (kn p)) done).

  Lemma spend_sem_RColl done ret state mc cc p ret2 state2 mc2 :
    spend_sem vk H K fl V ret state mc cc p = Ok (ret2, state2, mc2) ->
    RColl done ret state -> RColl (done ++ [p]) ret2 state2.
  Proof.
    unfold spend_sem, RColl. intros Hs [Clen [Cn Ch]].
    destruct (lookup_idx _ _); [discriminate|].
    match type of Hs with bind ?r _ = _ => destruct r as [st1|] eqn:E1; cbn [bind] in Hs; [|discriminate] end.
    match type of Hs with bind ?r _ = _ => destruct r as [st2|] eqn:E2; cbn [bind] in Hs; [|discriminate] end.
    inversion Hs; subst ret2 state2 mc2; clear Hs.
    pose proof (sem_fold_g _ _ _ _ _ _ _ E2) as G. rewrite fold_geffect_collected in G.
    apply (f_equal g_done) in G. unfold collected, gcore_of in G. cbn [g_done with_spend l_ret] in G.
    apply sem_fold_r in E2. rewrite fold_reffect in E2.
    match type of E1 with (if _ then charge ?s _ else _) = _ => set (st0 := s) in * end.
    assert (G1 : b_spends_rev (l_ret st1) = b_spends_rev ret).
    { destruct (f_cost_conds fl); [apply charge_g in E1; apply (f_equal g_done) in E1; exact E1|now inversion E1]. }
    assert (R1 : rcore_of st1 = rcore_of st0).
    { destruct (f_cost_conds fl); [now apply charge_r in E1|now inversion E1]. }
    match type of E2 with context [rcore_of ?s] => assert (RA : rcore_of s = rcore_of st0) by (rewrite <- R1; destruct V; reflexivity) end.
    rewrite RA in E2. unfold rcore_of in E2. cbn [st0 l_state l_spend l_ret new_spend sp_has_relative s_assert_not_ephemeral
                                                 b_with b_spends_rev r_neph r_has r_idx negb andb orb] in E2.
    injection E2 as X1 X2 X3. fold (kn p) in X1, X2.
    cbn [b_with b_spends_rev length map].
    assert (Hps : sp_has_relative (post_spend V (l_spend st2)) = sp_has_relative (l_spend st2)) by (unfold post_spend; destruct V; reflexivity).
    repeat split.
    - rewrite X3, app_length. cbn [length]. lia.
    - rewrite X1, enum_snoc, flat_map_snoc, Cn. unfold rel_idx. cbn [fst snd]. rewrite Clen.
      destruct (existsb relative_class (kn p)); reflexivity.
    - rewrite Hps, X2. replace (b_spends_rev (l_ret st2)) with (b_spends_rev ret).
      + rewrite Ch, map_app, rev_app_distr. reflexivity.
      + now rewrite G, G1.
  Qed.
End RColl.
