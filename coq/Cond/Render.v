(* Cond/Render.v — canonical one-line rendering of the model's results (stream `cond`). *)
From Coq Require Import String.
From ChiaV.Base Require Import Bytes Sha256.
From ChiaV.Clvm Require Import Sexp Ints.
From ChiaV.Gen Require Import Opcodes Ladders.
From ChiaV.Cond Require Import Model.
Open Scope N_scope.

Definition ecode_name (e : ecode) : bytes :=
  match e with
  | InvalidCondition => str "InvalidCondition" | InvalidConditionOpcode => str "InvalidConditionOpcode"
  | InvalidParentId => str "InvalidParentId" | InvalidPuzzleHash => str "InvalidPuzzleHash"
  | InvalidPublicKey => str "InvalidPublicKey" | InvalidMessage => str "InvalidMessage"
  | InvalidCoinAmount => str "InvalidCoinAmount" | CoinAmountExceedsMaximum => str "CoinAmountExceedsMaximum"
  | CoinAmountNegative => str "CoinAmountNegative" | InvalidSoftforkCost => str "InvalidSoftforkCost"
  | ReserveFeeConditionFailed => str "ReserveFeeConditionFailed" | InvalidCoinAnnouncement => str "InvalidCoinAnnouncement"
  | InvalidPuzzleAnnouncement => str "InvalidPuzzleAnnouncement"
  | AssertCoinAnnouncementFailed => str "AssertCoinAnnouncementFailed"
  | AssertPuzzleAnnouncementFailed => str "AssertPuzzleAnnouncementFailed"
  | AssertConcurrentSpendFailed => str "AssertConcurrentSpendFailed"
  | AssertConcurrentPuzzleFailed => str "AssertConcurrentPuzzleFailed"
  | AssertMyCoinIdFailed => str "AssertMyCoinIdFailed" | AssertMyParentIdFailed => str "AssertMyParentIdFailed"
  | AssertMyPuzzleHashFailed => str "AssertMyPuzzleHashFailed" | AssertMyAmountFailed => str "AssertMyAmountFailed"
  | AssertMyBirthSecondsFailed => str "AssertMyBirthSecondsFailed" | AssertMyBirthHeightFailed => str "AssertMyBirthHeightFailed"
  | AssertSecondsRelativeFailed => str "AssertSecondsRelativeFailed" | AssertSecondsAbsoluteFailed => str "AssertSecondsAbsoluteFailed"
  | AssertHeightRelativeFailed => str "AssertHeightRelativeFailed" | AssertHeightAbsoluteFailed => str "AssertHeightAbsoluteFailed"
  | AssertBeforeSecondsRelativeFailed => str "AssertBeforeSecondsRelativeFailed"
  | AssertBeforeSecondsAbsoluteFailed => str "AssertBeforeSecondsAbsoluteFailed"
  | AssertBeforeHeightRelativeFailed => str "AssertBeforeHeightRelativeFailed"
  | AssertBeforeHeightAbsoluteFailed => str "AssertBeforeHeightAbsoluteFailed"
  | InvalidMessageMode => str "InvalidMessageMode" | InvalidCoinId => str "InvalidCoinId"
  | DoubleSpend => str "DoubleSpend" | CostExceeded => str "CostExceeded" | DuplicateOutput => str "DuplicateOutput"
  | ImpossibleSecondsRelativeConstraints => str "ImpossibleSecondsRelativeConstraints"
  | ImpossibleHeightRelativeConstraints => str "ImpossibleHeightRelativeConstraints"
  | ImpossibleHeightAbsoluteConstraints => str "ImpossibleHeightAbsoluteConstraints"
  | ImpossibleSecondsAbsoluteConstraints => str "ImpossibleSecondsAbsoluteConstraints"
  | TooManyAnnouncements => str "TooManyAnnouncements" | TooManySpends => str "TooManySpends"
  | MintingCoin => str "MintingCoin" | AssertEphemeralFailed => str "AssertEphemeralFailed"
  | EphemeralRelativeCondition => str "EphemeralRelativeCondition"
  | MessageNotSentOrReceived => str "MessageNotSentOrReceived" | BadAggregateSignature => str "BadAggregateSignature"
  | GeneratorRuntimeError => str "GeneratorRuntimeError" | WrongPuzzleHash => str "WrongPuzzleHash"
  | InvalidSpendBundle => str "InvalidSpendBundle" | InternalPanic => str "InternalPanic"
  end.

Definition hexo (b : bytes) : bytes := match b with [] => [x2d] | _ => to_hex b end.
Definition colon : bytes := [x3a].
Definition comma : bytes := [x2c].
Definition semi : bytes := [x3b].
Definition items (l : list bytes) : bytes := match l with [] => [x2d] | _ => join comma l end.
Definition opt_dec (o : option N) : bytes := match o with Some n => to_dec n | None => [x2d] end.
Definition kv (k : string) (v : bytes) : bytes := str k ++ [x3d] ++ v.

(* lexicographic order on byte strings, for canonical set output *)
Fixpoint bytes_leb (a b : bytes) : bool :=
  match a, b with
  | [], _ => true
  | _ :: _, [] => false
  | x :: a', y :: b' => if b2n x <? b2n y then true else if b2n y <? b2n x then false else bytes_leb a' b'
  end.
Fixpoint insert_sorted (x : bytes) (l : list bytes) : list bytes :=
  match l with
  | [] => [x]
  | y :: r => if bytes_leb x y then x :: l else y :: insert_sorted x r
  end.
Definition sort_bytes (l : list bytes) : list bytes := fold_left (fun acc x => insert_sorted x acc) l [].

Definition render_coin (c : new_coin) : bytes :=
  to_hex (nc_ph c) ++ colon ++ to_hex (n2be 8 (nc_amount c)) ++ colon ++ hexo (nc_hint c).
Definition render_pm (pm : bytes * bytes) : bytes := to_hex (fst pm) ++ colon ++ hexo (snd pm).

Definition sigs_of (op : N) (s : spend) : bytes :=
  items (map (fun t => render_pm (snd (fst t), snd t))
             (filter (fun t => fst (fst t) =? op) (sp_agg_sig s))).

Definition spend_flags (s : spend) : N :=
  (if sp_dedup s then ELIGIBLE_FOR_DEDUP else 0) + (if sp_has_relative s then HAS_RELATIVE_CONDITION else 0)
  + (if sp_ff s then ELIGIBLE_FOR_FF else 0).

Definition render_spend (s : spend) : bytes :=
  join semi
    [ to_hex (sp_coin_id s); to_hex (sp_parent s); to_hex (sp_ph s); to_dec (sp_amount s);
      opt_dec (sp_height_relative s); opt_dec (sp_seconds_relative s);
      opt_dec (sp_before_height_relative s); opt_dec (sp_before_seconds_relative s);
      opt_dec (sp_birth_height s); opt_dec (sp_birth_seconds s);
      to_dec (spend_flags s); to_dec (sp_exec_cost s); to_dec (sp_cond_cost s);
      items (sort_bytes (map render_coin (sp_create_coin s)));
      sigs_of AGG_SIG_ME s; sigs_of AGG_SIG_PARENT s; sigs_of AGG_SIG_PUZZLE s; sigs_of AGG_SIG_AMOUNT s;
      sigs_of AGG_SIG_PUZZLE_AMOUNT s; sigs_of AGG_SIG_PARENT_AMOUNT s; sigs_of AGG_SIG_PARENT_PUZZLE s ].

Definition render_bundle (b : bundle) (spends : list spend) (pairs : list (bytes * bytes)) : bytes :=
  join [sp]
    [ str "OK"; kv "cost" (to_dec (b_cost b)); kv "rf" (to_dec (b_reserve_fee b));
      kv "ha" (to_dec (b_height_absolute b)); kv "sa" (to_dec (b_seconds_absolute b));
      kv "bha" (opt_dec (b_before_height_absolute b)); kv "bsa" (opt_dec (b_before_seconds_absolute b));
      kv "rem" (to_dec (b_removal b)); kv "add" (to_dec (b_addition b));
      kv "cc" (to_dec (b_cond_cost b)); kv "ec" (to_dec (b_exec_cost b));
      kv "unsafe" (items (map render_pm (b_agg_sig_unsafe b)));
      kv "spends" (match spends with [] => [x2d] | _ => join [x7c] (map render_spend spends) end);
      kv "pairs" (items (map render_pm pairs)) ].

Definition render_result (r : res (bundle * list spend * list (bytes * bytes))) : bytes :=
  match r with
  | Ok (b, spends, pairs) => render_bundle b spends pairs
  | Err e => str "ERR " ++ ecode_name e
  end.
