(* Cond/Strict.v — the mempool strictness flags only restrict (C06, first clause):
   anything accepted with NO_UNKNOWN_CONDS / STRICT_ARGS_COUNT / LIMIT_SPENDS set is accepted,
   with the identical result, when any of them is cleared (fork flags unchanged). *)
From ChiaV.Base Require Import Bytes.
From ChiaV.Clvm Require Import Sexp Ints.
From ChiaV.Gen Require Import Opcodes Ladders.
From ChiaV.Cond Require Import Model Invariants.
Open Scope N_scope.

(* fl' is fl with some strictness flags cleared *)
Definition weaker (fl' fl : cflags) : Prop :=
  f_cost_conds fl' = f_cost_conds fl /\ f_dont_validate fl' = f_dont_validate fl /\
  (f_no_unknown fl' = true -> f_no_unknown fl = true) /\
  (f_strict fl' = true -> f_strict fl = true) /\
  (f_limit_spends fl' = true -> f_limit_spends fl = true).

Section W.
  Variables fl fl' : cflags.
  Hypothesis W : weaker fl' fl.

  Lemma strict_part (X : res unit) u :
    (if f_strict fl then X else Ok tt) = Ok u -> (if f_strict fl' then X else Ok tt) = Ok u.
  Proof.
    destruct W as [_ [_ [_ [Hs _]]]]. destruct u.
    destruct (f_strict fl') eqn:E'; [rewrite (Hs eq_refl); trivial|].
    intros _. reflexivity.
  Qed.

  Lemma terminator_weaker c u :
    maybe_check_args_terminator fl c = Ok u -> maybe_check_args_terminator fl' c = Ok u.
  Proof. unfold maybe_check_args_terminator. apply strict_part. Qed.

  Lemma no_unknown_false : f_no_unknown fl = false -> f_no_unknown fl' = false.
  Proof.
    destruct W as [_ [_ [Hn _]]]. intros E. destruct (f_no_unknown fl') eqn:E'; [|reflexivity].
    rewrite (Hn eq_refl) in E. discriminate.
  Qed.

  Lemma lock_arg_weaker c size e pos neg mk r :
    lock_arg fl c size e pos neg mk = Ok r -> lock_arg fl' c size e pos neg mk = Ok r.
  Proof.
    unfold lock_arg. intros H.
    destruct (maybe_check_args_terminator fl c) as [u|] eqn:E; cbn [bind] in H; [|discriminate].
    rewrite (terminator_weaker _ _ E). exact H.
  Qed.

  Lemma hash_arg_weaker c e mk r : hash_arg fl c e mk = Ok r -> hash_arg fl' c e mk = Ok r.
  Proof.
    unfold hash_arg. intros H.
    destruct (maybe_check_args_terminator fl c) as [u|] eqn:E; cbn [bind] in H; [|discriminate].
    rewrite (terminator_weaker _ _ E). exact H.
  Qed.

  Lemma msg_arg_weaker c e mk r : msg_arg fl c e mk = Ok r -> msg_arg fl' c e mk = Ok r.
  Proof.
    unfold msg_arg. intros H.
    destruct (maybe_check_args_terminator fl c) as [u|] eqn:E; cbn [bind] in H; [|discriminate].
    rewrite (terminator_weaker _ _ E). exact H.
  Qed.

  Ltac step H :=
    match type of H with
    | bind ?r _ = Ok _ =>
        let E := fresh "E" in destruct r eqn:E; cbn [bind] in H |- *; [|discriminate H]
    end.

  Ltac stepn H x :=
    match type of H with
    | bind ?r _ = Ok _ =>
        let E := fresh "E" in destruct r as [x|] eqn:E; cbn [bind] in H |- *; [|discriminate H]
    end.

  Lemma parse_args_weaker c op cva : parse_args fl c op = Ok cva -> parse_args fl' c op = Ok cva.
  Proof.
    unfold parse_args. intros H.
    repeat match type of H with
    | (if ?b then _ else _) = _ =>
        lazymatch b with
        | f_no_unknown fl => fail
        | _ => destruct b
        end
    end;
    try (apply lock_arg_weaker; exact H); try (apply hash_arg_weaker; exact H);
    try (apply msg_arg_weaker; exact H); try exact H.
    - (* AGG_SIG_* *)
      do 5 step H.
      match type of H with bind ?r _ = _ => destruct r as [u|] eqn:Es; cbn [bind] in H; [|discriminate] end.
      rewrite (strict_part _ _ Es). exact H.
    - (* CREATE_COIN *)
      do 4 step H. stepn H sres. destruct sres as [amt| | |]; try discriminate H. stepn H c2.
      destruct c2 as [b|params rst].
      + match type of H with bind ?r _ = _ => destruct r as [u|] eqn:Es; cbn [bind] in H; [|discriminate] end.
        rewrite (strict_part _ _ Es). exact H.
      + match type of H with bind ?r _ = _ => destruct r as [u|] eqn:Es; cbn [bind] in H; [|discriminate] end.
        rewrite (terminator_weaker _ _ Es). exact H.
    - (* SOFTFORK *)
      destruct (f_no_unknown fl) eqn:En; [discriminate|]. rewrite (no_unknown_false En). exact H.
    - (* two-byte opcodes *)
      destruct (f_no_unknown fl) eqn:En; [discriminate|]. rewrite (no_unknown_false En). exact H.
    - (* RESERVE_FEE *)
      match type of H with bind ?r _ = _ => destruct r as [u|] eqn:Es; cbn [bind] in H; [|discriminate] end.
      rewrite (terminator_weaker _ _ Es). exact H.
    - (* ASSERT_MY_AMOUNT *)
      match type of H with bind ?r _ = _ => destruct r as [u|] eqn:Es; cbn [bind] in H; [|discriminate] end.
      rewrite (terminator_weaker _ _ Es). exact H.
    - (* ASSERT_EPHEMERAL *)
      match type of H with bind ?r _ = _ => destruct r as [u|] eqn:Es; cbn [bind] in H; [|discriminate] end.
      rewrite (strict_part _ _ Es). exact H.
    - (* SEND_MESSAGE *)
      do 6 step H. stepn H pr. destruct pr as [dst c3].
      match type of H with bind ?r _ = _ => destruct r as [u|] eqn:Es; cbn [bind] in H; [|discriminate] end.
      rewrite (strict_part _ _ Es). exact H.
    - (* RECEIVE_MESSAGE *)
      do 6 step H. stepn H pr. destruct pr as [src c3].
      match type of H with bind ?r _ = _ => destruct r as [u|] eqn:Es; cbn [bind] in H; [|discriminate] end.
      rewrite (strict_part _ _ Es). exact H.
  Qed.
End W.

Section W2.
  Variable vk : bytes -> bool.
  Variable H : bytes -> bytes.
  Variable K : consts.
  Variable V : visitor.
  Variables fl fl' : cflags.
  Hypothesis W : weaker fl' fl.

  Lemma decrement_same st : decrement fl' st = decrement fl st.
  Proof. unfold decrement. destruct W as [-> _]. reflexivity. Qed.

  Lemma push_pair_same st pk msg : push_pair fl' st pk msg = push_pair fl st pk msg.
  Proof. unfold push_pair. destruct W as [_ [-> _]]. reflexivity. Qed.

  Lemma apply_condition_same st cva : apply_condition vk K fl' st cva = apply_condition vk K fl st cva.
  Proof.
    destruct cva; cbn [apply_condition]; rewrite ?decrement_same; try reflexivity.
    (* agg sig: push_pair *)
    destruct (op =? AGG_SIG_UNSAFE).
    - destruct (check_agg_sig_unsafe_message K msg) as [[]|]; cbn [bind]; [|reflexivity].
      destruct (vk pk); [|reflexivity]. now rewrite push_pair_same.
    - destruct (vk pk); [|reflexivity]. now rewrite push_pair_same.
  Qed.

  Lemma precharge_same st op : precharge fl' st op = precharge fl st op.
  Proof. unfold precharge. destruct W as [-> _]. reflexivity. Qed.

  Lemma process_condition_weaker c st st' :
    process_condition vk K fl V c st = Ok st' -> process_condition vk K fl' V c st = Ok st'.
  Proof.
    unfold process_condition. intros Hp.
    destruct (first c) as [f|]; cbn [bind] in *; [|discriminate].
    destruct (parse_opcode f) as [op|].
    - rewrite precharge_same.
      destruct (precharge fl st op) as [st1|]; cbn [bind] in *; [|discriminate].
      destruct (rest c) as [c1|]; cbn [bind] in *; [|discriminate].
      destruct (parse_args fl c1 op) as [cva|] eqn:Ea; cbn [bind] in *; [|discriminate].
      rewrite (parse_args_weaker fl fl' W _ _ _ Ea). cbn [bind]. rewrite apply_condition_same. exact Hp.
    - destruct (f_no_unknown fl) eqn:En; [discriminate|].
      rewrite (no_unknown_false fl fl' W En). destruct W as [-> _]. exact Hp.
  Qed.

  Lemma conditions_loop_weaker iter : forall st st',
    conditions_loop vk K fl V iter st = Ok st' -> conditions_loop vk K fl' V iter st = Ok st'.
  Proof.
    induction iter as [b|c _ nxt IH]; intros st st' Hc; cbn [conditions_loop] in *; [exact Hc|].
    destruct (process_condition vk K fl V c st) as [st1|] eqn:E; cbn [bind] in Hc; [|discriminate].
    rewrite (process_condition_weaker _ _ _ E). cbn [bind]. now apply IH.
  Qed.

  Lemma process_single_spend_weaker ret state p ph a conds mc cc r :
    process_single_spend vk H K fl V ret state p ph a conds mc cc = Ok r ->
    process_single_spend vk H K fl' V ret state p ph a conds mc cc = Ok r.
  Proof.
    unfold process_single_spend. intros Hp.
    destruct (sanitize_hash p 32 InvalidParentId); cbn [bind] in *; [|discriminate].
    destruct (sanitize_hash ph 32 InvalidPuzzleHash); cbn [bind] in *; [|discriminate].
    destruct (parse_amount a InvalidCoinAmount); cbn [bind] in *; [|discriminate].
    destruct (atom_of a InvalidCoinAmount); cbn [bind] in *; [|discriminate].
    destruct (lookup_idx _ _); [discriminate|].
    assert (Hcc : f_cost_conds fl' = f_cost_conds fl) by (destruct W as [E _]; exact E).
    rewrite Hcc.
    match type of Hp with bind ?x _ = _ => destruct x as [st1|]; cbn [bind] in *; [|discriminate] end.
    match type of Hp with bind ?x _ = _ => destruct x as [st2|] eqn:E7; cbn [bind] in Hp; [|discriminate] end.
    rewrite (conditions_loop_weaker _ _ _ E7). cbn [bind]. exact Hp.
  Qed.

  Definition sl_weaker (sl' sl : option N) : Prop := sl' = sl \/ sl' = None.

  Lemma spends_loop_weaker iter : forall ret state cl sl sl' cc r,
    sl_weaker sl' sl ->
    spends_loop vk H K fl V iter ret state cl sl cc = Ok r ->
    spends_loop vk H K fl' V iter ret state cl sl' cc = Ok r.
  Proof.
    induction iter as [b|sp _ nxt IH]; intros ret state cl sl sl' cc r Hsl Hs; cbn [spends_loop] in *; [exact Hs|].
    assert (Hgo : (p <- parse_single_spend sp ;;
                   let '(parent_id, puzzle_hash, amount, conds) := p in
                   x <- process_single_spend vk H K fl V ret state parent_id puzzle_hash amount conds cl cc ;;
                   let '(ret1, state1, cost1) := x in
                   spends_loop vk H K fl V nxt ret1 state1 cost1 (option_map N.pred sl) cc) = Ok r).
    { destruct sl as [[|q]|]; [discriminate|exact Hs|exact Hs]. }
    assert (Hnz : sl' <> Some 0).
    { destruct Hsl as [->| ->]; [|discriminate]. destruct sl as [[|q]|]; [discriminate|discriminate|discriminate]. }
    clear Hs.
    assert (Hgoal : (p <- parse_single_spend sp ;;
                   let '(parent_id, puzzle_hash, amount, conds) := p in
                   x <- process_single_spend vk H K fl' V ret state parent_id puzzle_hash amount conds cl cc ;;
                   let '(ret1, state1, cost1) := x in
                   spends_loop vk H K fl' V nxt ret1 state1 cost1 (option_map N.pred sl') cc) = Ok r).
    { destruct (parse_single_spend sp) as [[[[pid phh] amt] conds]|]; cbn [bind] in *; [|discriminate].
      destruct (process_single_spend vk H K fl V ret state pid phh amt conds cl cc) as [[[ret1 state1] cost1]|] eqn:E1;
        cbn [bind] in Hgo; [|discriminate].
      rewrite (process_single_spend_weaker _ _ _ _ _ _ _ _ _ E1). cbn [bind].
      eapply IH; [|exact Hgo]. destruct Hsl as [->| ->]; [left; reflexivity|right; reflexivity]. }
    destruct sl' as [[|q]|]; [congruence|exact Hgoal|exact Hgoal].
  Qed.

  Theorem strict_implies_lenient t max_cost clvm_cost r :
    parse_spends vk H K fl V t max_cost clvm_cost = Ok r ->
    parse_spends vk H K fl' V t max_cost clvm_cost = Ok r.
  Proof.
    unfold parse_spends. intros Hp.
    destruct (first t) as [iter|]; cbn [bind] in *; [|discriminate].
    match type of Hp with bind ?x _ = _ => destruct x as [[[ret state] cl]|] eqn:E1; cbn [bind] in Hp; [|discriminate] end.
    assert (Hsl : sl_weaker (if f_limit_spends fl' then Some MAX_SPENDS_PER_BLOCK else None)
                            (if f_limit_spends fl then Some MAX_SPENDS_PER_BLOCK else None)).
    { destruct W as [_ [_ [_ [_ Hl]]]].
      destruct (f_limit_spends fl') eqn:E'; [rewrite (Hl eq_refl); left; reflexivity|right; reflexivity]. }
    rewrite (spends_loop_weaker _ _ _ _ _ _ _ _ Hsl E1). cbn [bind]. exact Hp.
  Qed.
End W2.
