(* Cond/Declarative.v — acceptance by parse_spends, fully declaratively (C01, S3 complete for
   accept/reject): syntax, per-spend local rules, resources, bundle rules. *)
From ChiaV.Base Require Import Bytes.
From ChiaV.Clvm Require Import Sexp Ints.
From ChiaV.Gen Require Import Opcodes Ladders.
From ChiaV.Cond Require Import Model Invariants Syntax Collect Rules Refine Guards Accept Totals Final Local LocalRules.
From Coq Require Import ZifyBool ZifyNat ZifyN.
Open Scope N_scope.

Section D.
  Variable vk : bytes -> bool.
  Variable H : bytes -> bytes.
  Variable K : consts.
  Variable fl : cflags.
  Variable V : visitor.

  Definition spend_total_cost (p : pspend) : N := spend_cost fl + conds_cost fl (ps_conds p).
  Definition total_cost (ps : list pspend) : N := sumN (map spend_total_cost ps).

  Lemma guards_budget l : forall a,
    guards vk K fl a l = true -> a_budget (fold_left (peffect fl) l a) = a_budget a - conds_cost fl l.
  Proof.
    induction l as [|p l IH]; intros a G; cbn [guards fold_left] in *.
    - unfold conds_cost. cbn. lia.
    - apply Bool.andb_true_iff in G. destruct G as [G1 G2].
      rewrite (IH _ G2), (peffect_budget vk K fl _ _ G1). unfold conds_cost, sumN. cbn [map fold_right]. lia.
  Qed.

  Theorem spends_guards_rules ps : forall budget fee seen left,
    fee < 2 ^ 64 ->
    (spends_guards vk H K fl ps budget fee seen left = true <->
     (NoDup (map (pid H) ps) /\ forall p, In p ps -> ~ In (pid H p) seen) /\
     match left with Some n => N.of_nat (length ps) <= n | None => True end /\
     total_cost ps <= budget /\
     fee + tot_fee ps < 2 ^ 64 /\
     Forall (LocalRules vk K fl H) ps).
  Proof.
    induction ps as [|p ps IH]; intros budget fee seen left Hfee; cbn [spends_guards].
    - unfold total_cost, tot_fee. cbn. split; [|reflexivity]. intros _.
      repeat split; try constructor; try lia; try (intros; contradiction). destruct left; [lia|exact I].
    - rewrite !Bool.andb_true_iff. unfold spend_guard. rewrite !Bool.andb_true_iff.
      rewrite (guards_split vk K fl (ps_conds p) (acore0 H fl p budget fee)) by (cbn; exact Hfee).
      rewrite (lguards_local_rules vk K fl H p budget fee).
      cbn [acore0 a_budget a_fee].
      unfold total_cost, tot_fee. cbn [map flat_map]. rewrite sumN_app. cbn [sumN fold_right].
      fold (total_cost ps). fold (tot_fee ps). fold (fees (ps_conds p)).
      split.
      + intros [[Hleft [[Hmem Hsc] [HL [Hcc Hff]]]] Hrest].
        assert (Hg : guards vk K fl (acore0 H fl p budget fee) (ps_conds p) = true).
        { apply (guards_split vk K fl (ps_conds p) (acore0 H fl p budget fee)); [cbn; exact Hfee|].
          split; [apply lguards_local_rules; exact HL|]. cbn [acore0 a_budget a_fee]. split; assumption. }
        unfold acoreF in Hrest. rewrite (guards_budget _ _ Hg), a_fee_fold in Hrest. cbn [acore0 a_budget a_fee] in Hrest.
        fold (fees (ps_conds p)) in Hrest.
        apply IH in Hrest; [|exact Hff]. destruct Hrest as [[Hnd Hseen] [Hl [Hc [Hf Hall]]]].
        apply Bool.negb_true_iff in Hmem.
        assert (Hnotin : ~ In (pid H p) seen).
        { intros Hin. apply mem_bytes_In in Hin. congruence. }
        repeat split.
        * cbn [map]. constructor; [|exact Hnd]. intros Hin. apply in_map_iff in Hin. destruct Hin as [q [Hq Hin]].
          apply (Hseen q Hin). rewrite Hq. now left.
        * intros q [<-|Hq]; [exact Hnotin|]. intros Hin. apply (Hseen q Hq). now right.
        * destruct left as [n|]; [|exact I]. cbn [length option_map] in *.
          destruct n as [|n']; [cbn in Hleft; discriminate|]. lia.
        * unfold total_cost, spend_total_cost, sumN in *. lia.
        * unfold tot_fee, fees, kn, sumN in *. lia.
        * constructor; assumption.
      + intros [[Hnd Hseen] [Hl [Hc [Hf Hall]]]].
        inversion Hnd as [|? ? Hnot Hnd']; subst. inversion Hall as [|? ? HL Hall']; subst.
        unfold spend_total_cost in Hc.
        assert (Hsc : spend_cost fl <= budget) by (unfold total_cost, sumN in *; lia).
        assert (Hcc : conds_cost fl (ps_conds p) <= budget - spend_cost fl) by (unfold total_cost, sumN in *; lia).
        assert (Hff : fee + fees (ps_conds p) < 2 ^ 64) by (unfold tot_fee, fees, kn, sumN in *; lia).
        assert (Hg : guards vk K fl (acore0 H fl p budget fee) (ps_conds p) = true).
        { apply (guards_split vk K fl (ps_conds p) (acore0 H fl p budget fee)); [cbn; exact Hfee|].
          split; [apply lguards_local_rules; exact HL|]. cbn [acore0 a_budget a_fee]. split; assumption. }
        split.
        * split.
          -- destruct left as [[|n']|]; [cbn [length] in Hl; lia|reflexivity|reflexivity].
          -- split; [split; [|lia]|split; [exact HL|split; assumption]].
             apply Bool.negb_true_iff. destruct (mem_bytes (pid H p) seen) eqn:E; [|reflexivity].
             apply mem_bytes_In in E. exfalso. apply (Hseen p); [now left|exact E].
        * unfold acoreF. rewrite (guards_budget _ _ Hg), a_fee_fold. cbn [acore0 a_budget a_fee].
          fold (fees (ps_conds p)). apply IH; [exact Hff|].
          repeat split.
          -- exact Hnd'.
          -- intros q Hq [E|Hin].
             ++ apply Hnot. apply in_map_iff. exists q. split; [now symmetry|exact Hq].
             ++ apply (Hseen q); [now right|exact Hin].
          -- destruct left as [n|]; [|exact I]. cbn [length option_map] in *. lia.
          -- unfold total_cost, spend_total_cost, sumN in *. lia.
          -- unfold tot_fee, fees, kn, sumN in *. lia.
          -- exact Hall'.
  Qed.

  (* the complete statement *)
  Theorem accept_iff_rules t max_cost clvm_cost :
    (exists r, parse_spends vk H K fl V t max_cost clvm_cost = Ok r) <->
    exists ps,
      tree_syntax fl t = Ok ps /\
      NoDup (map (pid H) ps) /\
      (f_limit_spends fl = true -> N.of_nat (length ps) <= MAX_SPENDS_PER_BLOCK) /\
      total_cost ps <= max_cost /\
      tot_fee ps < 2 ^ 64 /\
      Forall (LocalRules vk K fl H) ps /\
      BundleRules H ps.
  Proof.
    rewrite accept_characterisation. split; intros [ps [Hsyn Hrest]]; exists ps; (split; [exact Hsyn|]).
    - destruct Hrest as [Hg Hb].
      apply (spends_guards_rules ps max_cost 0 [] _) in Hg; [|apply N.neq_0_lt_0, N.pow_nonzero; lia].
      destruct Hg as [[Hnd _] [Hl [Hc [Hf Hall]]]].
      split; [exact Hnd|]. split; [intros E; rewrite E in Hl; exact Hl|]. split; [exact Hc|]. split; [lia|]. split; [exact Hall|exact Hb].
    - destruct Hrest as [Hnd [Hl [Hc [Hf [Hall Hb]]]]]. split; [|exact Hb].
      apply (spends_guards_rules ps max_cost 0 [] _); [apply N.neq_0_lt_0, N.pow_nonzero; lia|].
      split; [split; [exact Hnd|intros p _ []]|]. split; [destruct (f_limit_spends fl); [now apply Hl|exact I]|].
      split; [exact Hc|]. split; [lia|exact Hall].
  Qed.
End D.
