(* Cond/Summary.v — the reported summary of an accepted bundle is what the rules derive from the
   parsed conditions: per spend (identity, created coins, relative locks, birth assertions,
   signatures, relative-condition flag, costs) and per bundle (fee, absolute locks, unsafe
   signatures, amounts, pairs to be verified). *)
From ChiaV.Base Require Import Bytes.
From ChiaV.Clvm Require Import Sexp Ints.
From ChiaV.Gen Require Import Opcodes Ladders.
From ChiaV.Cond Require Import Model Invariants CostFacts Syntax Collect Rules Refine Guards Accept Totals Final Local LocalRules Declarative.
From Coq Require Import ZifyBool ZifyNat ZifyN.
Open Scope N_scope.

(* ---------- signatures and pairs ---------- *)
Record score := { x_sigs : list (N * bytes * bytes); x_unsafe : list (bytes * bytes); x_pairs : list (bytes * bytes) }.
Definition score_of (st : lstate) : score :=
  {| x_sigs := sp_agg_sig (l_spend st); x_unsafe := b_agg_sig_unsafe (l_ret st); x_pairs := s_pkm_pairs_rev (l_state st) |}.

Section S.
  Variable K : consts.
  Variable fl : cflags.

  (* s: the spend being processed (only its identity is read) *)
  Definition seffect (s : spend) (x : score) (c : condition) : score :=
    match c with
    | CAggSig op pk msg =>
        if op =? AGG_SIG_UNSAFE then
          {| x_sigs := x_sigs x; x_unsafe := x_unsafe x ++ [(pk, msg)];
             x_pairs := if f_dont_validate fl then x_pairs x else (pk, msg) :: x_pairs x |}
        else
          {| x_sigs := x_sigs x ++ [(op, pk, msg)]; x_unsafe := x_unsafe x;
             x_pairs := if f_dont_validate fl then x_pairs x else (pk, msg ++ agg_sig_suffix K op s) :: x_pairs x |}
    | _ => x
    end.

  Lemma score_eta x : {| x_sigs := x_sigs x; x_unsafe := x_unsafe x; x_pairs := x_pairs x |} = x.
  Proof. destruct x; reflexivity. Qed.

  Lemma charge_s st c st' : charge st c = Ok st' -> score_of st' = score_of st.
  Proof. unfold charge. intros H. break. reflexivity. Qed.
  Lemma precharge_s st op st' : precharge fl st op = Ok st' -> score_of st' = score_of st.
  Proof.
    unfold precharge. intros H.
    repeat match goal with H : (if ?c then _ else _) = Ok _ |- _ => destruct c end;
      try (apply charge_s in H; exact H); inversion H; reflexivity.
  Qed.
  Lemma visit_s V st cva : score_of (visit V st cva) = score_of st.
  Proof. unfold visit. destruct V; [reflexivity|]. destruct (mempool_condition _ _ _ _). reflexivity. Qed.

  (* the attributes agg_sig_suffix reads *)
  Definition same_id (s t : spend) : Prop :=
    sp_coin_id s = sp_coin_id t /\ sp_parent s = sp_parent t /\ sp_ph s = sp_ph t /\ sp_amount s = sp_amount t.

  Lemma suffix_same_id op s t : same_id s t -> agg_sig_suffix K op s = agg_sig_suffix K op t.
  Proof. intros [E1 [E2 [E3 E4]]]. unfold agg_sig_suffix. now rewrite E1, E2, E3, E4. Qed.

  Lemma apply_condition_s vk st cva st' :
    apply_condition vk K fl st cva = Ok st' -> score_of st' = seffect (l_spend st) (score_of st) cva.
  Proof.
    intros H.
    destruct cva; cbn [apply_condition seffect] in H |- *;
      try (apply charge_s in H; exact H);
      try (unfold mark_not_ephemeral, push_pair in H;
           cbn [l_spend l_state l_ret with_spend with_ret with_state sp_has_relative sp_set_locks sp_set_lists sp_set_flags] in H;
           split_in H; try discriminate H; inversion H; subst; unfold score_of; cbn; rewrite ?score_eta; reflexivity);
      try (destruct (decrement fl st) as [st1|] eqn:Ed; cbn [bind] in H; [|discriminate H];
           destruct (decrement_fields _ _ _ Ed) as [F1 [F2 F3]];
           try (match type of H with bind ?r _ = _ => destruct r; cbn [bind] in H; [|discriminate H] end);
           inversion H; subst; unfold score_of; cbn; rewrite ?F1, ?F2, ?F3; reflexivity).
  Qed.
End S.

(* ---------- folds over the conditions of one spend ---------- *)
Section S2.
  Variable vk : bytes -> bool.
  Variable K : consts.
  Variable fl : cflags.
  Variable V : visitor.

  Lemma cstep_ids k k' : cstep k k' -> k_id k' = k_id k /\ k_par k' = k_par k /\ k_ph k' = k_ph k /\ k_amt k' = k_amt k.
  Proof. intros [->|[c [_ ->]]]; repeat split; reflexivity. Qed.

  Lemma sem_step_s st p st' s0 :
    sem_step vk K fl V st p = Ok st' -> same_id (l_spend st) s0 ->
    same_id (l_spend st') s0 /\
    score_of st' = match p with Some (_, c) => seffect K fl s0 (score_of st) c | None => score_of st end.
  Proof.
    intros Hs Hid. split.
    - apply (sem_step_cstep vk K fl V) in Hs. apply cstep_ids in Hs. cbn [core_of k_id k_par k_ph k_amt] in Hs.
      destruct Hs as [E1 [E2 [E3 E4]]]. destruct Hid as [I1 [I2 [I3 I4]]]. unfold same_id. now rewrite E1, E2, E3, E4.
    - destruct p as [[op c]|]; cbn [sem_step] in Hs.
      + destruct (precharge fl st op) as [st1|] eqn:E; cbn [bind] in Hs; [|discriminate].
        apply apply_condition_s in Hs. rewrite visit_s in Hs.
        assert (Hid1 : same_id (l_spend (visit V st1 c)) s0).
        { apply precharge_core in E. apply (f_equal (fun k => (k_id k, k_par k, k_ph k, k_amt k))) in E.
          cbn [core_of k_id k_par k_ph k_amt] in E. injection E as E1 E2 E3 E4.
          pose proof (visit_core V st1 c) as Ev. apply (f_equal (fun k => (k_id k, k_par k, k_ph k, k_amt k))) in Ev.
          cbn [core_of k_id k_par k_ph k_amt] in Ev. injection Ev as V1 V2 V3 V4.
          destruct Hid as [I1 [I2 [I3 I4]]]. unfold same_id. now rewrite V1, V2, V3, V4, E1, E2, E3, E4. }
        apply precharge_s in E. rewrite E in Hs. rewrite Hs.
        destruct c; cbn [seffect]; try reflexivity.
        rewrite (suffix_same_id K _ _ _ Hid1). reflexivity.
      + destruct (f_cost_conds fl); [now apply charge_s in Hs|now inversion Hs].
  Qed.

  Lemma sem_fold_s l : forall st st' s0,
    sem_fold vk K fl V st l = Ok st' -> same_id (l_spend st) s0 ->
    score_of st' = fold_left (seffect K fl s0) (known l) (score_of st).
  Proof.
    induction l as [|p l IH]; intros st st' s0 Hs Hid; cbn [sem_fold] in Hs.
    - now inversion Hs.
    - destruct (sem_step vk K fl V st p) as [st1|] eqn:E; cbn [bind] in Hs; [|discriminate].
      destruct (sem_step_s _ _ _ s0 E Hid) as [Hid1 Es].
      rewrite (IH _ _ s0 Hs Hid1), Es, known_cons. destruct p as [[op c]|]; reflexivity.
  Qed.

  (* the lists a spend contributes *)
  Definition c_sig (c : condition) :=
    match c with CAggSig op pk msg => if op =? AGG_SIG_UNSAFE then [] else [(op, pk, msg)] | _ => [] end.
  Definition c_unsafe (c : condition) :=
    match c with CAggSig op pk msg => if op =? AGG_SIG_UNSAFE then [(pk, msg)] else [] | _ => [] end.
  Definition c_pair (s0 : spend) (c : condition) :=
    match c with
    | CAggSig op pk msg => if op =? AGG_SIG_UNSAFE then [(pk, msg)] else [(pk, msg ++ agg_sig_suffix K op s0)]
    | _ => []
    end.

  Lemma fold_seffect s0 l : forall x,
    fold_left (seffect K fl s0) l x =
    {| x_sigs := x_sigs x ++ flat_map c_sig l; x_unsafe := x_unsafe x ++ flat_map c_unsafe l;
       x_pairs := if f_dont_validate fl then x_pairs x else rev (flat_map (c_pair s0) l) ++ x_pairs x |}.
  Proof.
    induction l as [|c l IH]; intros x; cbn [fold_left flat_map].
    - rewrite !app_nil_r. cbn [rev app]. destruct (f_dont_validate fl); symmetry; apply score_eta.
    - rewrite IH. destruct c; cbn [seffect c_sig c_unsafe c_pair app]; try reflexivity.
      destruct (op =? AGG_SIG_UNSAFE); cbn [x_sigs x_unsafe x_pairs app];
        destruct (f_dont_validate fl); rewrite <- ?app_assoc; cbn [app rev]; rewrite <- ?app_assoc; reflexivity.
  Qed.

  (* lock fields of the projection after a list of conditions *)
  Lemma acoreF_fields l : forall a,
    a_sr (fold_left (peffect fl) l a) = fold_left omax (flat_map c_sr (known l)) (a_sr a) /\
    a_bsr (fold_left (peffect fl) l a) = fold_left omin (flat_map c_bsr (known l)) (a_bsr a) /\
    a_hr (fold_left (peffect fl) l a) = fold_left omax (flat_map c_hr (known l)) (a_hr a) /\
    a_bhr (fold_left (peffect fl) l a) = fold_left omin (flat_map c_bhr (known l)) (a_bhr a) /\
    a_bs (fold_left (peffect fl) l a) = fold_left (fun _ v => Some v) (flat_map c_bsec (known l)) (a_bs a) /\
    a_bh (fold_left (peffect fl) l a) = fold_left (fun _ v => Some v) (flat_map c_bhei (known l)) (a_bh a).
  Proof.
    induction l as [|p l IH]; intros a; cbn [fold_left].
    - repeat split; reflexivity.
    - destruct (IH (peffect fl a p)) as [I1 [I2 [I3 [I4 [I5 I6]]]]].
      destruct (peffect_fields fl a p) as [_ [E1 [E2 [E3 [E4 [E5 [E6 _]]]]]]].
      rewrite I1, I2, I3, I4, I5, I6, E1, E2, E3, E4, E5, E6, known_cons, !flat_map_app, !fold_left_app.
      repeat split; reflexivity.
  Qed.
End S2.

(* ---------- one spend, the whole bundle ---------- *)
Section S3.
  Variable vk : bytes -> bool.
  Variable H : bytes -> bytes.
  Variable K : consts.
  Variable fl : cflags.
  Variable V : visitor.

  Definition spend0 (p : pspend) : spend := new_spend (ps_parent p) (ps_amount p) (ps_ph p) (pid H p) 0.

  (* what the rules derive for one spend *)
  Record spend_matches (s : spend) (p : pspend) : Prop := {
    sm_ident : sident s = pident H p;
    sm_sr : sp_seconds_relative s = fold_left omax (flat_map c_sr (kn p)) None;
    sm_bsr : sp_before_seconds_relative s = fold_left omin (flat_map c_bsr (kn p)) None;
    sm_hr : sp_height_relative s = fold_left omax (flat_map c_hr (kn p)) None;
    sm_bhr : sp_before_height_relative s = fold_left omin (flat_map c_bhr (kn p)) None;
    sm_bs : sp_birth_seconds s = fold_left (fun _ v => Some v) (flat_map c_bsec (kn p)) None;
    sm_bh : sp_birth_height s = fold_left (fun _ v => Some v) (flat_map c_bhei (kn p)) None;
    sm_sigs : sp_agg_sig s = flat_map c_sig (kn p);
    sm_rel : sp_has_relative s = existsb relative_class (kn p)
  }.

  Definition lockident (s : spend) :=
    (sp_seconds_relative s, sp_before_seconds_relative s, sp_height_relative s, sp_before_height_relative s,
     sp_birth_seconds s, sp_birth_height s, sp_agg_sig s, sp_has_relative s).

  Lemma post_spend_lockident s : lockident (post_spend V s) = lockident s.
  Proof. unfold post_spend. destruct V; reflexivity. Qed.

  Lemma spend_sem_summary ret state mc cc p ret2 state2 mc2 :
    spend_sem vk H K fl V ret state mc cc p = Ok (ret2, state2, mc2) ->
    exists sp2,
      b_spends_rev ret2 = sp2 :: b_spends_rev ret /\ spend_matches sp2 p /\
      b_agg_sig_unsafe ret2 = b_agg_sig_unsafe ret ++ flat_map c_unsafe (kn p) /\
      s_pkm_pairs_rev state2 =
        if f_dont_validate fl then s_pkm_pairs_rev state
        else rev (flat_map (c_pair K (spend0 p)) (kn p)) ++ s_pkm_pairs_rev state.
  Proof.
    intros Hs. pose proof Hs as Hs'. pose proof Hs as Hs''.
    apply spend_sem_inv in Hs. destruct Hs as [_ [st1 [st2 [E1 [E2 Ex]]]]].
    unfold st_finish in Ex. inversion Ex; subst ret2 state2 mc2; clear Ex.
    exists (post_spend V (l_spend st2)). cbn [b_with b_spends_rev b_agg_sig_unsafe].
    (* identity and created coins: from the collection lemma *)
    destruct (spend_sem_collect _ _ _ _ _ _ _ _ _ _ _ _ _ Hs') as [st2' [_ [Eret [Est G]]]].
    (* the state before the conditions *)
    assert (A1 : acore_of (st_visit V p st1) = acore0 H fl p mc (b_reserve_fee ret)).
    { rewrite st_visit_a. now destruct (st1_acore H fl _ _ _ _ _ _ E1). }
    assert (S1 : score_of (st_visit V p st1) = {| x_sigs := []; x_unsafe := b_agg_sig_unsafe ret; x_pairs := s_pkm_pairs_rev state |}).
    { transitivity (score_of st1); [unfold st_visit; destruct V; reflexivity|].
      destruct (f_cost_conds fl); [apply charge_s in E1; rewrite E1; reflexivity|now inversion E1]. }
    assert (Hid : same_id (l_spend (st_visit V p st1)) (spend0 p)).
    { assert (X : core_of (st_visit V p st1) = core_of (st_init H ret state mc cc p)).
      { transitivity (core_of st1); [unfold st_visit; destruct V; reflexivity|].
        destruct (f_cost_conds fl); [now apply charge_core in E1|now inversion E1]. }
      apply (f_equal (fun k => (k_id k, k_par k, k_ph k, k_amt k))) in X. cbn [core_of k_id k_par k_ph k_amt st_init l_spend new_spend
        sp_coin_id sp_parent sp_ph sp_amount] in X. injection X as X1 X2 X3 X4. unfold same_id, spend0. cbn. now rewrite X1, X2, X3, X4. }
    assert (R1 : rcore_of (st_visit V p st1) = {| r_neph := s_assert_not_ephemeral state; r_has := false; r_idx := length (b_spends_rev ret) |}).
    { transitivity (rcore_of st1); [unfold st_visit; destruct V; reflexivity|].
      destruct (f_cost_conds fl); [apply charge_r in E1; rewrite E1; reflexivity|now inversion E1]. }
    pose proof (sem_fold_a vk K fl V _ _ _ E2) as Ea. rewrite A1 in Ea.
    destruct (acoreF_fields fl (ps_conds p) (acore0 H fl p mc (b_reserve_fee ret))) as [F1 [F2 [F3 [F4 [F5 F6]]]]].
    rewrite <- Ea in F1, F2, F3, F4, F5, F6. cbn [acore_of a_sr a_bsr a_hr a_bhr a_bs a_bh acore0] in F1, F2, F3, F4, F5, F6.
    pose proof (sem_fold_s vk K fl V _ _ _ _ E2 Hid) as Es. rewrite S1, fold_seffect in Es.
    pose proof (sem_fold_r vk K fl V _ _ _ E2) as Er. rewrite R1, fold_reffect in Er.
    pose proof (f_equal x_sigs Es) as X1. pose proof (f_equal x_unsafe Es) as X2. pose proof (f_equal x_pairs Es) as X3.
    pose proof (f_equal r_has Er) as X4.
    cbn [score_of x_sigs x_unsafe x_pairs rcore_of r_has app orb] in X1, X2, X3, X4.
    pose proof (post_spend_lockident (l_spend st2)) as PL. unfold lockident in PL.
    injection PL as P1 P2 P3 P4 P5 P6 P7 P8.
    split; [f_equal; (* the finished spends are untouched *)
            pose proof (sem_fold_g vk K fl V _ _ _ E2) as Gd; rewrite fold_geffect_collected in Gd;
            apply (f_equal g_done) in Gd; unfold collected, gcore_of in Gd; cbn [g_done] in Gd; rewrite Gd;
            transitivity (b_spends_rev (l_ret st1)); [unfold st_visit; destruct V; reflexivity|];
            destruct (f_cost_conds fl); [apply charge_g in E1; apply (f_equal g_done) in E1; exact E1|now inversion E1]|].
    split.
    - constructor; fold (kn p) in *.
      + (* identity: through the one-element collection invariant *)
        unfold sident, pident.
        destruct (post_spend_fields V (l_spend st2)) as [Pcc [Pamt [Ppar [Pph Pid]]]].
        rewrite Pcc, Pamt, Ppar, Pph, Pid.
        pose proof (sem_fold_g vk K fl V _ _ _ E2) as G2. rewrite fold_geffect_collected in G2.
        pose proof (f_equal g_cc G2) as H12. pose proof (f_equal g_id G2) as H13. pose proof (f_equal g_par G2) as H14.
        pose proof (f_equal g_ph G2) as H15. pose proof (f_equal g_amt G2) as H16.
        unfold collected, gcore_of in H12, H13, H14, H15, H16. cbn [g_cc g_id g_par g_ph g_amt] in H12, H13, H14, H15, H16.
        destruct Hid as [I1 [I2 [I3 I4]]]. cbn [spend0 new_spend sp_coin_id sp_parent sp_ph sp_amount] in I1, I2, I3, I4.
        rewrite H12, H13, H14, H15, H16, I1, I2, I3, I4.
        assert (Hcc0 : sp_create_coin (l_spend (st_visit V p st1)) = []).
        { assert (X : core_of (st_visit V p st1) = core_of (st_init H ret state mc cc p)).
          { transitivity (core_of st1); [unfold st_visit; destruct V; reflexivity|].
            destruct (f_cost_conds fl); [now apply charge_core in E1|now inversion E1]. }
          apply (f_equal k_cc) in X. exact X. }
        rewrite Hcc0. reflexivity.
      + rewrite P1. exact F1.
      + rewrite P2. exact F2.
      + rewrite P3. exact F3.
      + rewrite P4. exact F4.
      + rewrite P5. exact F5.
      + rewrite P6. exact F6.
      + rewrite P7. exact X1.
      + rewrite P8. exact X4.
    - split; [exact X2|exact X3].
  Qed.
End S3.

Section S4.
  Variable vk : bytes -> bool.
  Variable H : bytes -> bytes.
  Variable K : consts.
  Variable fl : cflags.
  Variable V : visitor.

  Definition all_unsafe (ps : list pspend) := flat_map (fun p => flat_map c_unsafe (kn p)) ps.
  Definition all_pairs (ps : list pspend) := flat_map (fun p => flat_map (c_pair K (spend0 H p)) (kn p)) ps.

  Lemma spends_sem_summary ps : forall ret state cl sl cc ret' state' cl',
    spends_sem vk H K fl V ps ret state cl sl cc = Ok (ret', state', cl') ->
    exists done, b_spends_rev ret' = done ++ b_spends_rev ret /\
      Forall2 (spend_matches H) (rev done) ps /\
      b_agg_sig_unsafe ret' = b_agg_sig_unsafe ret ++ all_unsafe ps /\
      s_pkm_pairs_rev state' = if f_dont_validate fl then s_pkm_pairs_rev state else rev (all_pairs ps) ++ s_pkm_pairs_rev state.
  Proof.
    induction ps as [|p ps IH]; intros ret state cl sl cc ret' state' cl' Hs; cbn [spends_sem] in Hs.
    - inversion Hs; subst. exists []. unfold all_unsafe, all_pairs. cbn. rewrite app_nil_r.
      repeat split; [constructor|destruct (f_dont_validate fl); reflexivity].
    - assert (Hgo : (r <- spend_sem vk H K fl V ret state cl cc p ;;
                     let '(ret1, state1, cost1) := r in
                     spends_sem vk H K fl V ps ret1 state1 cost1 (option_map N.pred sl) cc) = Ok (ret', state', cl')).
      { destruct sl as [[|q]|]; [discriminate|exact Hs|exact Hs]. }
      destruct (spend_sem vk H K fl V ret state cl cc p) as [[[ret1 state1] cost1]|] eqn:E; cbn [bind] in Hgo; [|discriminate].
      destruct (spend_sem_summary vk H K fl V _ _ _ _ _ _ _ _ E) as [sp2 [D1 [M1 [U1 P1]]]].
      destruct (IH _ _ _ _ _ _ _ _ Hgo) as [done [D2 [M2 [U2 P2]]]].
      exists (done ++ [sp2]). repeat split.
      + rewrite D2, D1, <- app_assoc. reflexivity.
      + rewrite rev_app_distr. cbn [rev app]. constructor; assumption.
      + rewrite U2, U1. unfold all_unsafe. cbn [flat_map]. now rewrite app_assoc.
      + rewrite P2, P1. unfold all_pairs. cbn [flat_map]. destruct (f_dont_validate fl); [reflexivity|].
        rewrite rev_app_distr, <- app_assoc. reflexivity.
  Qed.

  (* the statement: an accepted result reports exactly what the rules derive from the parsed bundle *)
  Theorem accepted_summary t max_cost clvm_cost b spends pairs :
    parse_spends vk H K fl V t max_cost clvm_cost = Ok (b, spends, pairs) ->
    exists ps,
      tree_syntax fl t = Ok ps /\
      (* per spend, in order; flags other than HAS_RELATIVE_CONDITION are the mempool visitor's *)
      Forall2 (fun s p => sident s = pident H p /\
                          sp_seconds_relative s = fold_left omax (flat_map c_sr (kn p)) None /\
                          sp_before_seconds_relative s = fold_left omin (flat_map c_bsr (kn p)) None /\
                          sp_height_relative s = fold_left omax (flat_map c_hr (kn p)) None /\
                          sp_before_height_relative s = fold_left omin (flat_map c_bhr (kn p)) None /\
                          sp_birth_seconds s = fold_left (fun _ v => Some v) (flat_map c_bsec (kn p)) None /\
                          sp_birth_height s = fold_left (fun _ v => Some v) (flat_map c_bhei (kn p)) None /\
                          sp_agg_sig s = flat_map c_sig (kn p) /\
                          sp_has_relative s = existsb relative_class (kn p)) spends ps /\
      (* per bundle *)
      b_removal b = tot_removal ps /\ b_addition b = tot_addition ps /\ b_reserve_fee b = tot_fee ps /\
      b_height_absolute b = fold_left N.max (flat_map c_ha (all_known ps)) 0 /\
      b_seconds_absolute b = fold_left N.max (flat_map c_sa (all_known ps)) 0 /\
      b_before_height_absolute b = fold_left omin (flat_map c_bha (all_known ps)) None /\
      b_before_seconds_absolute b = fold_left omin (flat_map c_bsa (all_known ps)) None /\
      b_agg_sig_unsafe b = all_unsafe ps /\
      pairs = (if f_dont_validate fl then [] else all_pairs ps).
  Proof.
    intros Hp. apply parse_spends_split in Hp. destruct Hp as [ps [Hsyn Hsem]].
    exists ps. split; [exact Hsyn|].
    unfold bundle_sem in Hsem.
    match type of Hsem with bind ?x _ = _ => destruct x as [[[ret state] cl]|] eqn:E1; cbn [bind] in Hsem; [|discriminate] end.
    match type of Hsem with bind ?x _ = _ => destruct x as [[]|] eqn:E2; cbn [bind] in Hsem; [|discriminate] end.
    inversion Hsem; subst b spends pairs; clear Hsem.
    cbn [b_removal b_addition b_reserve_fee b_height_absolute b_seconds_absolute b_before_height_absolute
         b_before_seconds_absolute b_agg_sig_unsafe].
    destruct (spends_sem_summary ps _ _ _ _ _ _ _ _ E1) as [done [D [M [U P]]]].
    cbn [empty_bundle empty_state b_spends_rev b_agg_sig_unsafe s_pkm_pairs_rev app] in D, U, P. rewrite app_nil_r in D.
    destruct (spends_sem_totals vk H K fl V ps _ _ _ _ _ _ _ _ E1) as [T1 [T2 [T3 T4]]].
    cbn [empty_bundle b_removal b_addition b_reserve_fee] in T1, T2, T3.
    unfold bret in T4. cbn [empty_bundle b_height_absolute b_seconds_absolute b_before_height_absolute b_before_seconds_absolute] in T4.
    rewrite fold_beffect in T4. cbn [h_ha h_sa h_bha h_bsa] in T4. injection T4 as A1 A2 A3 A4.
    split.
    - (* the reported spends are the finished ones with the fast-forward flag possibly cleared *)
      rewrite D, fast_rev_rev.
      assert (Hpp : forall l, Forall2 (spend_matches H) l ps ->
                    Forall2 (spend_matches H) (post_process H V l state) ps).
      { intros l Hl. unfold post_process. destruct V; [exact Hl|].
        (* both passes map each spend to itself or to itself with the FF flag cleared *)
        assert (Hmap : forall (f : spend -> spend) l ps, (forall s p, spend_matches H s p -> spend_matches H (f s) p) ->
                         Forall2 (spend_matches H) l ps -> Forall2 (spend_matches H) (map f l) ps).
        { intros f l0 ps0 Hf Hl0. induction Hl0; cbn [map]; constructor; auto. }
        apply Hmap.
        - intros s p Hm. match goal with |- context [if ?c then _ else _] => destruct c end; [|exact Hm].
          destruct Hm; constructor; assumption.
        - assert (Hc : forall a l0 ps0, Forall2 (spend_matches H) l0 ps0 ->
                    Forall2 (spend_matches H)
                      (map (fun is : nat * spend => let '(i, s) := is in
                              if existsb (Nat.eqb i)
                                   (fold_left (fun acc id => match lookup_idx id (s_spent_coins state) with Some i0 => i0 :: acc | None => acc end)
                                              (s_assert_concurrent_spend state) [])
                              then clear_ff s else s) (combine (seq a (length l0)) l0)) ps0).
          { intros a l0 ps0 Hl0. revert a. induction Hl0 as [|s p l1 ps1 Hm Hr IHr]; intros a; cbn [length seq combine map]; constructor.
            - match goal with |- context [if ?c then _ else _] => destruct c end; [|exact Hm]. destruct Hm; constructor; assumption.
            - apply IHr. }
          apply Hc. exact Hl. }
      apply Hpp in M.
      clear -M. induction M as [|s p l1 ps1 Hm Hr IHr]; constructor; [|exact IHr].
      destruct Hm as [M1 M2 M3 M4 M5 M6 M7 M8 M9]. repeat split; assumption.
    - unfold tot_removal, tot_addition, tot_fee.
      repeat split; try lia; try assumption.
      rewrite P, fast_rev_rev. destruct (f_dont_validate fl); [reflexivity|]. rewrite app_nil_r. apply rev_involutive.
  Qed.
End S4.
