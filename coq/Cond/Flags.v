(* Cond/Flags.v — the mempool eligibility flags (ELIGIBLE_FOR_DEDUP, ELIGIBLE_FOR_FF) of an accepted
   bundle are a function of the parsed conditions: a per-condition rule, the "looks like a singleton"
   output rule, and the two bundle-level rules of MempoolVisitor::post_process. *)
From ChiaV.Base Require Import Bytes.
From ChiaV.Clvm Require Import Sexp Ints.
From ChiaV.Gen Require Import Opcodes Ladders.
From ChiaV.Cond Require Import Model Invariants CostFacts Syntax Collect Rules Refine Guards Accept Totals Final Local LocalRules Declarative Summary.
From Coq Require Import ZifyBool ZifyNat ZifyN.
Open Scope N_scope.

Record fcore := { f_ff : bool; f_dd : bool; f_cnt : N }.
Definition fcore_of (st : lstate) : fcore :=
  {| f_ff := sp_ff (l_spend st); f_dd := sp_dedup (l_spend st); f_cnt := l_counter st |}.

Definition feffect (V : visitor) (f : fcore) (c : condition) : fcore :=
  match V with
  | VEmpty => f
  | VMempool => let '(ff, dd) := mempool_condition (f_cnt f) (f_ff f) (f_dd f) c in
                {| f_ff := ff; f_dd := dd; f_cnt := f_cnt f + 1 |}
  end.

Lemma fcore_eta f : {| f_ff := f_ff f; f_dd := f_dd f; f_cnt := f_cnt f |} = f.
Proof. destruct f; reflexivity. Qed.

Lemma charge_f st c st' : charge st c = Ok st' -> fcore_of st' = fcore_of st.
Proof. unfold charge. intros H. break. reflexivity. Qed.
Lemma decrement_f fl st st' : decrement fl st = Ok st' -> fcore_of st' = fcore_of st.
Proof. unfold decrement. intros H. break; reflexivity. Qed.
Lemma precharge_f fl st op st' : precharge fl st op = Ok st' -> fcore_of st' = fcore_of st.
Proof.
  unfold precharge. intros H.
  repeat match goal with H : (if ?c then _ else _) = Ok _ |- _ => destruct c end;
    try (apply charge_f in H; exact H); inversion H; reflexivity.
Qed.
Lemma visit_f V st cva : fcore_of (visit V st cva) = feffect V (fcore_of st) cva.
Proof.
  unfold visit, feffect. destruct V; [reflexivity|].
  cbn [fcore_of f_cnt f_ff f_dd]. destruct (mempool_condition _ _ _ _). reflexivity.
Qed.

Lemma apply_condition_f vk K fl st cva st' :
  apply_condition vk K fl st cva = Ok st' -> fcore_of st' = fcore_of st.
Proof.
  intros H.
  destruct cva; cbn [apply_condition] in H;
    try (apply charge_f in H; exact H);
    try (unfold mark_not_ephemeral, push_pair in H;
         cbn [l_spend l_state l_ret with_spend with_ret with_state sp_has_relative sp_set_locks sp_set_lists sp_set_flags] in H;
         split_in H; try discriminate H; inversion H; subst; unfold fcore_of; cbn; reflexivity);
    try (destruct (decrement fl st) as [st1|] eqn:Ed; cbn [bind] in H; [|discriminate H];
         apply decrement_f in Ed;
         try (match type of H with bind ?r _ = _ => destruct r; cbn [bind] in H; [|discriminate H] end);
         inversion H; subst; rewrite <- Ed; unfold fcore_of; cbn; reflexivity).
Qed.

Lemma sem_step_f vk K fl V st p st' :
  sem_step vk K fl V st p = Ok st' ->
  fcore_of st' = match p with Some (_, c) => feffect V (fcore_of st) c | None => fcore_of st end.
Proof.
  intros Hs. destruct p as [[op c]|]; cbn [sem_step] in Hs.
  - destruct (precharge fl st op) as [st1|] eqn:E; cbn [bind] in Hs; [|discriminate].
    apply apply_condition_f in Hs. rewrite visit_f in Hs. apply precharge_f in E. now rewrite E in Hs.
  - destruct (f_cost_conds fl); [now apply charge_f in Hs|now inversion Hs].
Qed.

Lemma sem_fold_f vk K fl V l : forall st st',
  sem_fold vk K fl V st l = Ok st' -> fcore_of st' = fold_left (feffect V) (known l) (fcore_of st).
Proof.
  induction l as [|p l IH]; intros st st' Hs; cbn [sem_fold] in Hs.
  - now inversion Hs.
  - destruct (sem_step vk K fl V st p) as [st1|] eqn:E; cbn [bind] in Hs; [|discriminate].
    rewrite (IH _ _ Hs), (sem_step_f _ _ _ _ _ _ _ E), known_cons. destruct p as [[op c]|]; reflexivity.
Qed.

(* ---------- the per-condition rules, read declaratively ---------- *)
(* conditions that make a spend ineligible for deduplication: anything signed or messaging *)
Definition dd_ok (c : condition) : bool :=
  match c with CAggSig _ _ _ | CSendMessage _ _ _ | CReceiveMessage _ _ _ => false | _ => true end.

(* conditions compatible with fast-forward; i is the position among the spend's known conditions *)
Definition ff_ok (i : N) (c : condition) : bool :=
  match c with
  | CAssertMyCoinId _ | CAssertHeightRelative _ | CAssertSecondsRelative _
  | CAssertBeforeHeightRelative _ | CAssertBeforeSecondsRelative _
  | CAssertMyBirthHeight _ | CAssertMyBirthSeconds _ | CAssertEphemeral | CCreateCoinAnnouncement _ => false
  | CAssertMyParentId _ => i =? 1
  | CAggSig op _ _ =>
      negb ((op =? AGG_SIG_ME) || (op =? AGG_SIG_PARENT) || (op =? AGG_SIG_PARENT_AMOUNT) || (op =? AGG_SIG_PARENT_PUZZLE))
  | CSendMessage src_mode _ _ => N.land src_mode MODE_PARENT =? 0
  | CReceiveMessage _ dst_mode _ => N.land dst_mode MODE_PARENT =? 0
  | _ => true
  end.

Lemma mempool_condition_spec i ff dd c :
  mempool_condition i ff dd c = (ff && ff_ok i c, dd && dd_ok c).
Proof.
  destruct c; cbn [mempool_condition ff_ok dd_ok];
    try (destruct (N.land _ MODE_PARENT =? 0)); cbn [negb];
    repeat match goal with |- context [if ?c then _ else _] => destruct c end;
    cbn [negb]; rewrite ?Bool.andb_true_r, ?Bool.andb_false_r; reflexivity.
Qed.

Fixpoint forallb_idx (g : N -> condition -> bool) (i : N) (l : list condition) : bool :=
  match l with [] => true | c :: r => g i c && forallb_idx g (i + 1) r end.

Lemma fold_feffect_mempool l : forall f,
  fold_left (feffect VMempool) l f =
  {| f_ff := f_ff f && forallb_idx ff_ok (f_cnt f) l; f_dd := f_dd f && forallb dd_ok l;
     f_cnt := f_cnt f + N.of_nat (length l) |}.
Proof.
  induction l as [|c l IH]; intros f; cbn [fold_left forallb_idx forallb length].
  - rewrite !Bool.andb_true_r. replace (f_cnt f + N.of_nat 0) with (f_cnt f) by lia. symmetry. apply fcore_eta.
  - rewrite IH. cbn [feffect]. rewrite mempool_condition_spec. cbn [f_ff f_dd f_cnt].
    rewrite <- !Bool.andb_assoc. f_equal. lia.
Qed.

Lemma fold_feffect_empty l : forall f, fold_left (feffect VEmpty) l f = f.
Proof. induction l as [|c l IH]; intros f; cbn [fold_left feffect]; [reflexivity|apply IH]. Qed.

(* ---------- one spend ---------- *)
Section F1.
  Variable vk : bytes -> bool.
  Variable H : bytes -> bytes.
  Variable K : consts.
  Variable fl : cflags.
  Variable V : visitor.

  (* dedup: nothing signed, no messages, and at least as much value created as spent *)
  Definition dedup_rule (p : pspend) : bool :=
    match V with
    | VEmpty => false
    | VMempool => forallb dd_ok (kn p) && (ps_amount p <=? created_amount p)
    end.

  (* fast-forward, spend-local part: odd amount, compatible conditions only, and an output that re-creates
     the same puzzle hash with the same amount *)
  Definition ff_local (p : pspend) : bool :=
    match V with
    | VEmpty => false
    | VMempool => N.odd (ps_amount p) && forallb_idx ff_ok 0 (kn p) &&
                  existsb (fun c => bytes_eqb (ps_ph p) (nc_ph c) && (ps_amount p =? nc_amount c)) (flat_map c_created (kn p))
    end.

  Lemma fold_sum_created l : forall acc,
    fold_left (fun acc c => acc + nc_amount c) l acc = acc + sumN (map nc_amount l).
  Proof.
    induction l as [|c l IH]; intros acc; cbn [fold_left map sumN]; [unfold sumN; cbn; lia|].
    rewrite IH. unfold sumN. cbn [fold_right]. lia.
  Qed.

  Lemma spend_sem_flags ret state mc cc p ret2 state2 mc2 :
    spend_sem vk H K fl V ret state mc cc p = Ok (ret2, state2, mc2) ->
    exists sp2, b_spends_rev ret2 = sp2 :: b_spends_rev ret /\
                sp_ff sp2 = ff_local p /\ sp_dedup sp2 = dedup_rule p.
  Proof.
    intros Hs. pose proof Hs as Hs'.
    destruct (spend_sem_summary vk H K fl V _ _ _ _ _ _ _ _ Hs') as [sp2' [D' [M' _]]].
    apply spend_sem_inv in Hs. destruct Hs as [_ [st1 [st2 [E1 [E2 Ex]]]]].
    unfold st_finish in Ex. inversion Ex; subst ret2 state2 mc2; clear Ex.
    cbn [b_with b_spends_rev] in D' |- *. exists (post_spend V (l_spend st2)).
    assert (Esp : sp2' = post_spend V (l_spend st2)) by (injection D' as D1 _; now symmetry).
    subst sp2'. split; [now rewrite D'|].
    destruct M' as [Mid _ _ _ _ _ _ _ _]. unfold sident, pident in Mid. injection Mid as I1 I2 I3 I4 I5.
    destruct (post_spend_fields V (l_spend st2)) as [Pcc [Pamt [Ppar [Pph Pid]]]].
    rewrite Pcc in I5. rewrite Pamt in I4. rewrite Pph in I3.
    pose proof (sem_fold_f vk K fl V _ _ _ E2) as Ef. fold (kn p) in Ef.
    assert (F0 : fcore_of (st_visit V p st1) =
                 match V with VEmpty => {| f_ff := false; f_dd := false; f_cnt := 0 |}
                            | VMempool => {| f_ff := N.odd (ps_amount p); f_dd := true; f_cnt := 0 |} end).
    { assert (X : fcore_of st1 = {| f_ff := false; f_dd := false; f_cnt := 0 |}).
      { destruct (f_cost_conds fl); [apply charge_f in E1; rewrite E1; reflexivity|now inversion E1]. }
      unfold st_visit. destruct V; [exact X|].
      unfold fcore_of in X |- *. cbn [with_spend l_spend l_counter sp_set_flags sp_ff sp_dedup] in X |- *.
      injection X as _ _ X3. now rewrite X3. }
    rewrite F0 in Ef. unfold ff_local, dedup_rule, post_spend. destruct V.
    - rewrite fold_feffect_empty in Ef. injection Ef as F1 F2 _. split; assumption.
    - rewrite fold_feffect_mempool in Ef. cbn [f_ff f_dd f_cnt] in Ef. injection Ef as F1 F2 _.
      cbn [sp_set_flags sp_ff sp_dedup]. rewrite F1, F2, I5, I4, I3. cbn [andb]. split; [reflexivity|].
      rewrite fold_sum_created. unfold created_amount. f_equal.
      destruct (N.ltb_spec (0 + sumN (map nc_amount (flat_map c_created (kn p)))) (ps_amount p));
        destruct (N.leb_spec (ps_amount p) (sumN (map nc_amount (flat_map c_created (kn p))))); cbn [negb]; try reflexivity; lia.
  Qed.
End F1.

(* ---------- the bundle: MempoolVisitor::post_process ---------- *)
Lemma bool_eq_iff (a b : bool) : (a = true <-> b = true) -> a = b.
Proof.
  destruct a, b; intros [H1 H2]; try reflexivity; [symmetry; apply H1; reflexivity|apply H2; reflexivity].
Qed.

Lemma existsb_ext_all {A} (f g : A -> bool) l : (forall x, f x = g x) -> existsb f l = existsb g l.
Proof. intros E. induction l as [|x l IH]; cbn [existsb]; [reflexivity|now rewrite E, IH]. Qed.

Lemma nth_error_combine_seq {A} (l : list A) : forall a i,
  nth_error (combine (seq a (length l)) l) i = option_map (fun x => ((a + i)%nat, x)) (nth_error l i).
Proof.
  induction l as [|x l IH]; intros a i; cbn [length seq combine].
  - destruct i; reflexivity.
  - destruct i as [|i]; cbn [nth_error option_map].
    + do 2 f_equal. lia.
    + rewrite IH. destruct (nth_error l i); cbn [option_map]; [do 2 f_equal; lia|reflexivity].
Qed.

Lemma Forall2_nth_intro {A B} (R : A -> B -> Prop) l1 : forall l2,
  length l1 = length l2 ->
  (forall i a b, nth_error l1 i = Some a -> nth_error l2 i = Some b -> R a b) -> Forall2 R l1 l2.
Proof.
  induction l1 as [|a l1 IH]; intros [|b l2] Hl Hn; cbn [length] in Hl; try discriminate; constructor.
  - apply (Hn 0%nat); reflexivity.
  - apply IH; [lia|]. intros i a' b' H1 H2. apply (Hn (S i)); assumption.
Qed.

Lemma Forall2_nth_elim {A B} (R : A -> B -> Prop) l1 l2 :
  Forall2 R l1 l2 -> forall i a b, nth_error l1 i = Some a -> nth_error l2 i = Some b -> R a b.
Proof.
  intros HF. induction HF as [|x y l1 l2 Hxy HF IH]; intros [|i] a b H1 H2; cbn [nth_error] in *; try discriminate.
  - inversion H1; inversion H2; subst; assumption.
  - eapply IH; eassumption.
Qed.

Lemma Forall2_impl_own {A B} (R R' : A -> B -> Prop) l1 l2 :
  (forall a b, R a b -> R' a b) -> Forall2 R l1 l2 -> Forall2 R' l1 l2.
Proof. intros Hi HF. induction HF; constructor; auto. Qed.

Lemma Forall2_len {A B} (R : A -> B -> Prop) l1 l2 : Forall2 R l1 l2 -> length l1 = length l2.
Proof. intros HF. induction HF; cbn [length]; [reflexivity|now f_equal]. Qed.

Lemma referenced_in spent concs : forall acc i,
  In i (fold_left (fun acc id => match lookup_idx id spent with Some j => j :: acc | None => acc end) concs acc) <->
  In i acc \/ exists id, In id concs /\ lookup_idx id spent = Some i.
Proof.
  induction concs as [|id concs IH]; intros acc i; cbn [fold_left].
  - split; [auto|intros [Hh|[id [[] _]]]; exact Hh].
  - rewrite IH. destruct (lookup_idx id spent) as [j|] eqn:E.
    + split.
      * intros [[<-|Hin]|[id' [Hin Hl]]].
        -- right. exists id. split; [now left|exact E].
        -- now left.
        -- right. exists id'. split; [now right|exact Hl].
      * intros [Hin|[id' [[<-|Hin] Hl]]].
        -- left. now right.
        -- left. left. congruence.
        -- right. exists id'. split; assumption.
    + split.
      * intros [Hin|[id' [Hin Hl]]]; [now left|right; exists id'; split; [now right|exact Hl]].
      * intros [Hin|[id' [[<-|Hin] Hl]]]; [now left|congruence|right; exists id'; split; assumption].
Qed.

Lemma existsb_nat_In i l : existsb (Nat.eqb i) l = true <-> In i l.
Proof.
  rewrite existsb_exists. split.
  - intros [x [Hin Hx]]. apply Nat.eqb_eq in Hx. now subst.
  - intros Hin. exists i. split; [exact Hin|apply Nat.eqb_refl].
Qed.

Section F2.
  Variable vk : bytes -> bool.
  Variable H : bytes -> bytes.
  Variable K : consts.
  Variable fl : cflags.
  Variable V : visitor.
  Notation pid := (pid H).

  (* every coin id some spend of the bundle names in ASSERT_CONCURRENT_SPEND *)
  Definition all_conc_spend (ps : list pspend) : list bytes := flat_map (fun p => flat_map c_conc_spend (kn p)) ps.
  (* the id of the coin a CREATE_COIN of spend p creates *)
  Definition child_id (p : pspend) (cc : new_coin) : bytes := H (pid p ++ nc_ph cc ++ coin_amount_bytes (nc_amount cc)).

  (* ELIGIBLE_FOR_FF: the spend-local rule, and nobody in the bundle commits to this coin id: no
     ASSERT_CONCURRENT_SPEND names it and none of its outputs is spent in the same bundle *)
  Definition ff_rule (ps : list pspend) (p : pspend) : bool :=
    ff_local V p && negb (mem_bytes (pid p) (all_conc_spend ps))
    && negb (existsb (fun cc => mem_bytes (child_id p cc) (map pid ps)) (flat_map c_created (kn p))).

  Lemma spent_mem ps x : NoDup (map pid ps) ->
    match lookup_idx x (spent_of H ps) with Some _ => true | None => false end = mem_bytes x (map pid ps).
  Proof.
    intros Hnd. apply bool_eq_iff. split.
    - destruct (lookup_idx x (spent_of H ps)) as [j|] eqn:E; [intros _|discriminate].
      destruct (spent_lookup_sound H _ _ _ E) as [q [Hq Hid]]. apply mem_bytes_In. rewrite <- Hid.
      apply in_map. eapply nth_error_In; eassumption.
    - intros Hm. apply mem_bytes_In in Hm. apply in_map_iff in Hm. destruct Hm as [q [Hq Hin]].
      apply In_nth_error in Hin. destruct Hin as [j Hj].
      rewrite <- Hq, (spent_lookup_complete H _ _ _ Hnd Hj). reflexivity.
  Qed.

  Lemma referenced_mem ps i p : NoDup (map pid ps) -> nth_error ps i = Some p ->
    existsb (Nat.eqb i)
      (fold_left (fun acc id => match lookup_idx id (spent_of H ps) with Some j => j :: acc | None => acc end)
                 (rev (all_conc_spend ps)) []) = mem_bytes (pid p) (all_conc_spend ps).
  Proof.
    intros Hnd Hp. apply bool_eq_iff. rewrite existsb_nat_In, referenced_in, mem_bytes_In. split.
    - intros [[]|[id [Hin Hl]]]. apply in_rev in Hin.
      destruct (spent_lookup_sound H _ _ _ Hl) as [q [Hq Hid]]. assert (q = p) by congruence. subst q. now rewrite Hid.
    - intros Hin. right. exists (pid p). split; [now apply -> in_rev|].
      now apply (spent_lookup_complete H).
  Qed.

  Lemma post_process_flags ps spends state :
    map sident spends = map (pident H) ps -> NoDup (map pid ps) ->
    s_spent_coins state = spent_of H ps ->
    s_assert_concurrent_spend state = rev (all_conc_spend ps) ->
    Forall2 (fun s p => sp_ff s = ff_local V p /\ sp_dedup s = dedup_rule V p) spends ps ->
    Forall2 (fun s p => sp_ff s = ff_rule ps p /\ sp_dedup s = dedup_rule V p) (post_process H V spends state) ps.
  Proof.
    intros Hm Hnd Hsp Hcs HF. unfold post_process, ff_rule.
    destruct V eqn:EV.
    - (* block visitor: no flags at all *)
      eapply Forall2_impl_own; [|exact HF]. intros s p [E1 E2]. split; [|exact E2]. rewrite E1. reflexivity.
    - pose proof (Forall2_len _ _ _ HF) as Hlen.
      apply Forall2_nth_intro.
      + rewrite !map_length, combine_length, seq_length. lia.
      + intros i s' p Hs' Hp.
        rewrite !nth_error_map, nth_error_combine_seq in Hs'.
        destruct (nth_error spends i) as [s|] eqn:Es; cbn [option_map] in Hs'; [|discriminate].
        destruct (Forall2_nth_elim _ _ _ HF i s p Es Hp) as [Eff Edd].
        destruct (map_eq_nth _ _ _ _ _ _ Hm Es) as [p' [Hp' Hid]].
        assert (p' = p) by congruence. subst p'.
        unfold sident, pident in Hid. injection Hid as I1 I2 I3 I4 I5.
        cbn [Nat.add] in Hs'. rewrite Hsp, Hcs in Hs'.
        rewrite (referenced_mem ps i p Hnd Hp) in Hs'.
        injection Hs' as Hs'. subst s'.
        destruct (mem_bytes (pid p) (all_conc_spend ps)); cbn [negb].
        * cbn [clear_ff sp_set_flags sp_ff sp_dedup andb]. rewrite Bool.andb_false_r. cbn [andb]. split; [reflexivity|exact Edd].
        * rewrite Bool.andb_true_r, I1, I5.
          rewrite (existsb_ext_all _ (fun cc => mem_bytes (child_id p cc) (map pid ps))) by (intros cc; apply spent_mem; exact Hnd).
          rewrite Eff.
          destruct (ff_local VMempool p); cbn [andb].
          -- destruct (existsb _ _); cbn [negb clear_ff sp_set_flags sp_ff sp_dedup]; (split; [assumption || reflexivity|exact Edd]).
          -- split; [exact Eff|exact Edd].
  Qed.
End F2.

Section F3.
  Variable vk : bytes -> bool.
  Variable H : bytes -> bytes.
  Variable K : consts.
  Variable fl : cflags.
  Variable V : visitor.

  Lemma spends_sem_flags ps : forall ret state cl sl cc ret' state' cl',
    spends_sem vk H K fl V ps ret state cl sl cc = Ok (ret', state', cl') ->
    exists done, b_spends_rev ret' = done ++ b_spends_rev ret /\
      Forall2 (fun s p => sp_ff s = ff_local V p /\ sp_dedup s = dedup_rule V p) (rev done) ps.
  Proof.
    induction ps as [|p ps IH]; intros ret state cl sl cc ret' state' cl' Hs; cbn [spends_sem] in Hs.
    - inversion Hs; subst. exists []. split; [reflexivity|constructor].
    - assert (Hgo : (r <- spend_sem vk H K fl V ret state cl cc p ;;
                     let '(ret1, state1, cost1) := r in
                     spends_sem vk H K fl V ps ret1 state1 cost1 (option_map N.pred sl) cc) = Ok (ret', state', cl')).
      { destruct sl as [[|q]|]; [discriminate|exact Hs|exact Hs]. }
      destruct (spend_sem vk H K fl V ret state cl cc p) as [[[ret1 state1] cost1]|] eqn:E; cbn [bind] in Hgo; [|discriminate].
      destruct (spend_sem_flags vk H K fl V _ _ _ _ _ _ _ _ E) as [sp2 [D1 [F1 F2]]].
      destruct (IH _ _ _ _ _ _ _ _ Hgo) as [done [D2 M2]].
      exists (done ++ [sp2]). split.
      + rewrite D2, D1, <- app_assoc. reflexivity.
      + rewrite rev_app_distr. cbn [rev app]. constructor; [split; assumption|exact M2].
  Qed.

  (* the statement: the eligibility flags of every reported spend are exactly what the rules derive *)
  Theorem accepted_flags t max_cost clvm_cost b spends pairs :
    parse_spends vk H K fl V t max_cost clvm_cost = Ok (b, spends, pairs) ->
    exists ps, tree_syntax fl t = Ok ps /\
      Forall2 (fun s p => sp_ff s = ff_rule H V ps p /\ sp_dedup s = dedup_rule V p) spends ps.
  Proof.
    intros Hp. apply parse_spends_split in Hp. destruct Hp as [ps [Hsyn Hsem]].
    exists ps. split; [exact Hsyn|].
    unfold bundle_sem in Hsem.
    match type of Hsem with bind ?x _ = _ => destruct x as [[[ret state] cl]|] eqn:E1; cbn [bind] in Hsem; [|discriminate] end.
    match type of Hsem with bind ?x _ = _ => destruct x as [[]|] eqn:E2; cbn [bind] in Hsem; [|discriminate] end.
    inversion Hsem; subst b spends pairs; clear Hsem.
    destruct (spends_sem_flags ps _ _ _ _ _ _ _ _ E1) as [done [D M]].
    cbn [empty_bundle b_spends_rev app] in D. rewrite app_nil_r in D.
    pose proof (spends_sem_Coll vk H K fl V ps [] _ _ _ _ _ _ _ _ E1 (Coll_empty H)) as C. cbn [app] in C.
    pose proof (spends_sem_NoDup vk H K fl V ps [] _ _ _ _ _ _ _ _ E1 (Coll_empty H) (NoDup_nil _)) as Hnd. cbn [app] in Hnd.
    destruct C as [_ _ _ _ _ C6 _ _ _ C10 _ C12].
    rewrite D, fast_rev_rev. apply (post_process_flags H V ps (rev done) state).
    - rewrite D in C12. rewrite map_rev, C12. apply rev_involutive.
    - exact Hnd.
    - exact C10.
    - exact C6.
    - exact M.
  Qed.
End F3.
