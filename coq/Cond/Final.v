(* Cond/Final.v — acceptance by parse_spends, characterised over pure data (C01, S3):
   a tree is accepted exactly when it parses syntactically into a bundle ps such that
   the fold of per-condition guards over ps is true and the bundle-level rules hold. *)
From ChiaV.Base Require Import Bytes.
From ChiaV.Clvm Require Import Sexp Ints.
From ChiaV.Gen Require Import Opcodes Ladders.
From ChiaV.Cond Require Import Model Invariants Syntax Collect Rules Refine Guards Accept Totals.
From Coq Require Import ZifyBool ZifyNat ZifyN.
Open Scope N_scope.

Section F.
  Variable vk : bytes -> bool.
  Variable H : bytes -> bytes.
  Variable K : consts.
  Variable fl : cflags.
  Variable V : visitor.

  Definition all_known (ps : list pspend) : list condition := flat_map kn ps.
  Definition tot_removal (ps : list pspend) : N := sumN (map ps_amount ps).
  Definition tot_addition (ps : list pspend) : N := sumN (map created_amount ps).
  Definition tot_fee (ps : list pspend) : N := sumN (flat_map (fun p => flat_map c_fee (kn p)) ps).

  (* the bundle-level rules, over the parsed bundle only *)
  Record BundleRules (ps : list pspend) : Prop := {
    br_value : tot_addition ps + tot_fee ps <= tot_removal ps;
    (* every ASSERT_BEFORE_HEIGHT_ABSOLUTE bound lies above every ASSERT_HEIGHT_ABSOLUTE bound (and above 0) *)
    br_height : forall b, In b (flat_map c_bha (all_known ps)) ->
                0 < b /\ forall a, In a (flat_map c_ha (all_known ps)) -> a < b;
    br_seconds : forall b, In b (flat_map c_bsa (all_known ps)) ->
                 0 < b /\ forall a, In a (flat_map c_sa (all_known ps)) -> a < b;
    br_cross : CrossRules H ps
  }.

  Lemma abs_rule_iff afters befores :
    match fold_left omin befores None with Some m => fold_left N.max afters 0 < m | None => True end <->
    forall b, In b befores -> 0 < b /\ forall a, In a afters -> a < b.
  Proof.
    rewrite fold_omin_gt. split.
    - intros [_ Hall] b Hb. specialize (Hall b Hb). apply fold_max_lt in Hall. exact Hall.
    - intros Hall. split; [exact I|]. intros b Hb. apply fold_max_lt. exact (Hall b Hb).
  Qed.

  Theorem accept_characterisation t max_cost clvm_cost :
    (exists r, parse_spends vk H K fl V t max_cost clvm_cost = Ok r) <->
    exists ps,
      tree_syntax fl t = Ok ps /\
      spends_guards vk H K fl ps max_cost 0 [] (if f_limit_spends fl then Some MAX_SPENDS_PER_BLOCK else None) = true /\
      BundleRules ps.
  Proof.
    split.
    - intros [r Hp]. apply parse_spends_split in Hp. destruct Hp as [ps [Hsyn Hsem]].
      exists ps. split; [exact Hsyn|].
      unfold bundle_sem in Hsem.
      match type of Hsem with bind ?x _ = _ => destruct x as [[[ret state] cl]|] eqn:E1; cbn [bind] in Hsem; [|discriminate] end.
      match type of Hsem with bind ?x _ = _ => destruct x as [[]|] eqn:E2; cbn [bind] in Hsem; [|discriminate] end.
      split.
      + apply (proj1 (spends_sem_guards vk H K fl V ps empty_bundle empty_state max_cost _ clvm_cost)). eexists; exact E1.
      + apply (deferred_stage_iff vk H K fl V ps max_cost clvm_cost ret state cl E1) in E2.
        destruct E2 as [Hv [Hh [Hs Hc]]].
        destruct (spends_sem_totals vk H K fl V ps _ _ _ _ _ _ _ _ E1) as [T1 [T2 [T3 T4]]].
        cbn [empty_bundle b_removal b_addition b_reserve_fee] in T1, T2, T3.
        unfold bret in T4. cbn [empty_bundle b_height_absolute b_seconds_absolute b_before_height_absolute b_before_seconds_absolute] in T4.
        rewrite fold_beffect in T4. cbn [h_ha h_sa h_bha h_bsa] in T4. injection T4 as A1 A2 A3 A4.
        constructor.
        * unfold tot_addition, tot_fee, tot_removal. lia.
        * rewrite A1, A3 in Hh. apply abs_rule_iff. exact Hh.
        * rewrite A2, A4 in Hs. apply abs_rule_iff. exact Hs.
        * exact Hc.
    - intros [ps [Hsyn [Hg [Bv Bh Bs Bc]]]].
      destruct (proj2 (spends_sem_guards vk H K fl V ps empty_bundle empty_state max_cost _ clvm_cost) Hg) as [[[ret state] cl] E1].
      destruct (spends_sem_totals vk H K fl V ps _ _ _ _ _ _ _ _ E1) as [T1 [T2 [T3 T4]]].
      cbn [empty_bundle b_removal b_addition b_reserve_fee] in T1, T2, T3.
      unfold bret in T4. cbn [empty_bundle b_height_absolute b_seconds_absolute b_before_height_absolute b_before_seconds_absolute] in T4.
      rewrite fold_beffect in T4. cbn [h_ha h_sa h_bha h_bsa] in T4. injection T4 as A1 A2 A3 A4.
      assert (E2 : validate_conditions H ret (post_process H V (fast_rev (b_spends_rev ret)) state) state = Ok tt).
      { apply (deferred_stage_iff vk H K fl V ps max_cost clvm_cost ret state cl E1).
        split; [unfold tot_addition, tot_fee, tot_removal in Bv; lia|].
        split; [rewrite A1, A3; apply abs_rule_iff; exact Bh|].
        split; [rewrite A2, A4; apply abs_rule_iff; exact Bs|exact Bc]. }
      eexists. apply parse_spends_split. exists ps. split; [exact Hsyn|].
      unfold bundle_sem. rewrite E1. cbn [bind]. rewrite E2. cbn [bind]. reflexivity.
  Qed.
End F.
