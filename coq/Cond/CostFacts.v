(* Cond/CostFacts.v — cost accounting of the mirror (C04): every charge goes through [charge];
   the three accumulators (remaining budget, bundle condition cost, per-spend condition cost)
   move together, so the reported cost is the sum of the per-spend costs and never exceeds the limit. *)
From ChiaV.Base Require Import Bytes.
From ChiaV.Clvm Require Import Sexp Ints.
From ChiaV.Gen Require Import Opcodes Ladders.
From ChiaV.Cond Require Import Model Invariants.
From Coq Require Import ZifyBool ZifyNat ZifyN.
Open Scope N_scope.

Record qcore := { q_max : N; q_bcc : N; q_scc : N; q_done : list spend }.
Definition q_of (st : lstate) : qcore :=
  {| q_max := l_max_cost st; q_bcc := b_cond_cost (l_ret st); q_scc := sp_cond_cost (l_spend st);
     q_done := b_spends_rev (l_ret st) |}.

Definition qstep (q q' : qcore) : Prop :=
  exists c, c <= q_max q /\ q' = {| q_max := q_max q - c; q_bcc := q_bcc q + c; q_scc := q_scc q + c; q_done := q_done q |}.

Lemma qstep_refl q : qstep q q.
Proof. exists 0. split; [lia|]. destruct q; cbn. f_equal; lia. Qed.

Lemma qstep_trans a b c : qstep a b -> qstep b c -> qstep a c.
Proof.
  intros [x [Hx ->]] [y [Hy ->]]. cbn in *. exists (x + y). split; [lia|]. f_equal; lia.
Qed.

Lemma q_eq_step a b : b = a -> qstep a b.
Proof. intros ->. apply qstep_refl. Qed.

Lemma charge_q st c st' : charge st c = Ok st' -> qstep (q_of st) (q_of st').
Proof.
  unfold charge. destruct (N.ltb_spec (l_max_cost st) c); [discriminate|]. intros [= <-].
  exists c. split; [exact H|reflexivity].
Qed.

Lemma decrement_q fl st st' : decrement fl st = Ok st' -> q_of st' = q_of st.
Proof. unfold decrement. intros H. break; reflexivity. Qed.

Lemma mark_q st : q_of (mark_not_ephemeral st) = q_of st.
Proof. unfold mark_not_ephemeral. destruct (sp_has_relative (l_spend st)); reflexivity. Qed.

Lemma push_pair_q fl st pk msg : q_of (push_pair fl st pk msg) = q_of st.
Proof. unfold push_pair. destruct (f_dont_validate fl); reflexivity. Qed.

Lemma visit_q V st cva : q_of (visit V st cva) = q_of st.
Proof. unfold visit. destruct V; [reflexivity|]. destruct (mempool_condition _ _ _ _). reflexivity. Qed.

Lemma precharge_q fl st op st' : precharge fl st op = Ok st' -> qstep (q_of st) (q_of st').
Proof.
  unfold precharge. intros H.
  repeat match goal with H : (if ?c then _ else _) = Ok _ |- _ => destruct c end;
    try (apply charge_q in H; exact H); inversion H; apply qstep_refl.
Qed.

Lemma apply_condition_q vk K fl st cva st' :
  apply_condition vk K fl st cva = Ok st' -> qstep (q_of st) (q_of st').
Proof.
  intros H. destruct cva; cbn [apply_condition] in H;
    try (apply q_eq_step; break; rewrite ?mark_q, ?push_pair_q; reflexivity);
    try (apply q_eq_step; break; match goal with E : decrement _ _ = Ok _ |- _ => apply decrement_q in E; rewrite <- E end; reflexivity).
  - (* softfork *) now apply charge_q in H.
Qed.

Lemma process_condition_q vk K fl V c st st' :
  process_condition vk K fl V c st = Ok st' -> qstep (q_of st) (q_of st').
Proof.
  unfold process_condition. intros H. break.
  - apply apply_condition_q in H. rewrite visit_q in H. apply precharge_q in E1.
    eapply qstep_trans; eassumption.
  - now apply charge_q in H.
  - apply qstep_refl.
Qed.

Lemma conditions_loop_q vk K fl V iter : forall st st',
  conditions_loop vk K fl V iter st = Ok st' -> qstep (q_of st) (q_of st').
Proof.
  induction iter as [b|c _ nxt IH]; intros st st' H; cbn [conditions_loop] in H.
  - destruct b; [inversion H; apply qstep_refl|discriminate].
  - break. eapply qstep_trans; [eapply process_condition_q; exact E|apply IH; exact H].
Qed.

Section Outer.
  Variable vk : bytes -> bool.
  Variable H : bytes -> bytes.
  Variable K : consts.
  Variable fl : cflags.
  Variable V : visitor.

  (* M = the limit parse_spends was given *)
  Definition CInv (M : N) (ret : bundle) (cost_left : N) : Prop :=
    cost_left + b_cond_cost ret = M /\ b_cond_cost ret = sumN (map sp_cond_cost (b_spends_rev ret)).

  Lemma post_spend_cond_cost s : sp_cond_cost (post_spend V s) = sp_cond_cost s.
  Proof. unfold post_spend. destruct V; reflexivity. Qed.

  Lemma process_single_spend_cost M ret state p ph a conds mc cc ret' state' mc' :
    process_single_spend vk H K fl V ret state p ph a conds mc cc = Ok (ret', state', mc') ->
    CInv M ret mc -> CInv M ret' mc'.
  Proof.
    unfold process_single_spend, CInv. intros Hp [I1 I2].
    destruct (sanitize_hash p 32 InvalidParentId) as [parent|]; cbn [bind] in Hp; [|discriminate].
    destruct (sanitize_hash ph 32 InvalidPuzzleHash) as [puz|]; cbn [bind] in Hp; [|discriminate].
    destruct (parse_amount a InvalidCoinAmount) as [amt|]; cbn [bind] in Hp; [|discriminate].
    destruct (atom_of a InvalidCoinAmount) as [buf|]; cbn [bind] in Hp; [|discriminate].
    destruct (lookup_idx _ _); [discriminate|].
    match type of Hp with bind ?r _ = _ => destruct r as [st1|] eqn:E6; cbn [bind] in Hp; [|discriminate] end.
    match type of Hp with bind ?r _ = _ => destruct r as [st2|] eqn:E7; cbn [bind] in Hp; [|discriminate] end.
    inversion Hp; subst ret' state' mc'; clear Hp.
    match type of E6 with (if _ then charge ?s _ else _) = _ => set (st0 := s) in * end.
    assert (S1 : qstep (q_of st0) (q_of st1)).
    { destruct (f_cost_conds fl); [now apply charge_q in E6|inversion E6; apply qstep_refl]. }
    match type of E7 with conditions_loop _ _ _ _ _ ?s = _ => set (stA := s) in * end.
    assert (SA : q_of stA = q_of st1) by (unfold stA; destruct V; reflexivity).
    apply conditions_loop_q in E7. rewrite SA in E7.
    destruct (qstep_trans _ _ _ S1 E7) as [c [Hc Hq]].
    unfold q_of in Hq, Hc. cbn [st0 l_max_cost l_ret l_spend b_with b_cond_cost b_spends_rev new_spend sp_cond_cost q_max q_bcc q_scc q_done] in Hq, Hc.
    injection Hq as Q1 Q2 Q3 Q4.
    cbn [b_with b_cond_cost b_spends_rev map sumN fold_right].
    rewrite post_spend_cond_cost, Q1, Q2, Q3, Q4. unfold sumN in I2. split; lia.
  Qed.

  Lemma spends_loop_cost M iter : forall ret state cl sl cc ret' state' cl',
    spends_loop vk H K fl V iter ret state cl sl cc = Ok (ret', state', cl') ->
    CInv M ret cl -> CInv M ret' cl'.
  Proof.
    induction iter as [b|sp _ nxt IH]; intros ret state cl sl cc ret' state' cl' Hs I.
    - cbn [spends_loop] in Hs. destruct b; [inversion Hs; subst; exact I|discriminate].
    - cbn [spends_loop] in Hs.
      assert (Hgo : (p <- parse_single_spend sp ;;
                     let '(parent_id, puzzle_hash, amount, conds) := p in
                     r <- process_single_spend vk H K fl V ret state parent_id puzzle_hash amount conds cl cc ;;
                     let '(ret1, state1, cost1) := r in
                     spends_loop vk H K fl V nxt ret1 state1 cost1 (option_map N.pred sl) cc) = Ok (ret', state', cl')).
      { destruct sl as [[|q]|]; [discriminate|exact Hs|exact Hs]. }
      clear Hs.
      destruct (parse_single_spend sp) as [[[[pid phh] amt] conds]|]; cbn [bind] in Hgo; [|discriminate].
      destruct (process_single_spend vk H K fl V ret state pid phh amt conds cl cc) as [[[ret1 state1] cost1]|] eqn:E1;
        cbn [bind] in Hgo; [|discriminate].
      eapply IH; [exact Hgo|]. eapply process_single_spend_cost; eassumption.
  Qed.

  Lemma post_process_cond_cost l state : map sp_cond_cost (post_process H V l state) = map sp_cond_cost l.
  Proof.
    unfold post_process. destruct V; [reflexivity|].
    rewrite map_map.
    rewrite (map_ext _ sp_cond_cost).
    2:{ intros x. match goal with |- context [if ?c then _ else _] => destruct c end; reflexivity. }
    apply map_combine_seq.
    intros i s. cbn beta iota.
    match goal with |- context [if ?c then _ else _] => destruct c end; reflexivity.
  Qed.
End Outer.

(* reported cost = condition cost = sum of the per-spend condition costs, and never above the limit *)
Theorem cost_accounting vk H K fl V t max_cost clvm_cost b spends pairs :
  parse_spends vk H K fl V t max_cost clvm_cost = Ok (b, spends, pairs) ->
  b_cost b = b_cond_cost b /\ b_cond_cost b = sumN (map sp_cond_cost spends) /\ b_cost b <= max_cost.
Proof.
  unfold parse_spends. intros Hp.
  destruct (first t) as [iter|]; cbn [bind] in Hp; [|discriminate].
  match type of Hp with bind ?r _ = _ => destruct r as [[[ret state] cl]|] eqn:E1; cbn [bind] in Hp; [|discriminate] end.
  match type of Hp with bind ?r _ = _ => destruct r as [[]|] eqn:E2; cbn [bind] in Hp; [|discriminate] end.
  inversion Hp; subst b spends pairs; clear Hp. cbn [b_cost b_cond_cost].
  assert (I0 : CInv max_cost empty_bundle max_cost) by (split; cbn; [lia|reflexivity]).
  destruct (spends_loop_cost _ _ _ _ _ _ _ _ _ _ _ _ _ _ _ E1 I0) as [I1 I2].
  rewrite post_process_cond_cost, fast_rev_rev, map_rev, sumN_rev.
  repeat split; [lia|exact I2|lia].
Qed.
