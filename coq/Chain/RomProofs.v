(* Chain/RomProofs.v — facts about the ROM reading (Chain/Rom.v). *)
From ChiaV.Base Require Import Bytes.
From ChiaV.Clvm Require Import Sexp TreeHash.
From ChiaV.Gen Require Import ChainConsts.
From ChiaV.Cond Require Import Model.
From ChiaV.Chain Require Import Backref Rom.
Open Scope N_scope.

(* the deserializer the ROM hands to generators (constant at environment path 8 of the compiled
   ROM) is the program the native path passes (CHIALISP_DESERIALISATION): same generator arguments *)
Lemma rom_deserializer_const : rom_local_deserialize_mod = DESERIALIZER.
Proof. vm_compute. reflexivity. Qed.

Lemma rom_deserializer_nontrivial : exists a b, DESERIALIZER = Pair a b.
Proof. vm_compute. eauto. Qed.

(* the ROM's sha256tree is the tree hash (C17's reference definition) *)
Lemma sha256tree_th : forall H t, sha256tree H t = th H t.
Proof. induction t; simpl; congruence. Qed.
