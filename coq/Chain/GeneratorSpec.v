(* Chain/GeneratorSpec.v — what the C07 theorems speak about: the hypotheses on the CLVM oracle, the
   part of a generator result the two paths must agree on (everything except the cost totals and the
   per-spend / total execution cost, which the legacy path cannot attribute), list terminators.
   Definitions only. *)
From ChiaV.Base Require Import Bytes.
From ChiaV.Clvm Require Import Sexp.
From ChiaV.Cond Require Import Model.
From ChiaV.Chain Require Import Backref Rom Generator.
Open Scope N_scope.

(* ---- hypotheses on the oracle `run : program -> environment -> budget -> res (cost, result)` ---- *)
(* deterministic (a function), budget-monotone and exact: a successful evaluation has an intrinsic cost and
   succeeds on exactly the budgets that cover it, failing with CostExceeded below *)
Definition run_exact_hyp (run : sexp -> sexp -> N -> res (N * sexp)) : Prop :=
  forall p a b c r, run p a b = Ok (c, r) ->
  forall b', run p a b' = if c <=? b' then Ok (c, r) else Err CostExceeded.
(* (q . x) evaluates to x at cost 20 in any environment *)
Definition run_quote_hyp (run : sexp -> sexp -> N -> res (N * sexp)) : Prop :=
  forall x env b, 20 <= b -> run (Pair (Atom [x01]) x) env b = Ok (20, x).
(* the generator ROM (the compiled program, as the consensus code loads it) behaves as its Gallina reading:
   when it succeeds its output is the reading's and it costs at least the evaluations it delegates ... *)
Definition rom_ok_hyp (run : sexp -> sexp -> N -> res (N * sexp)) (H : bytes -> bytes) : Prop :=
  forall g refs b c out, run ROM (rom_args g refs) b = Ok (c, out) ->
  exists c', rom_eval run H g refs = Ok (c', out) /\ c' <= c.
(* ... and when it fails for a reason other than cost / interpreter resources, so does the reading *)
Definition rom_err_hyp (run : sexp -> sexp -> N -> res (N * sexp)) (H : bytes -> bytes) : Prop :=
  forall g refs b e, run ROM (rom_args g refs) b = Err e -> e <> CostExceeded ->
  exists e', rom_eval run H g refs = Err e'.
Definition run_oracle_ok (run : sexp -> sexp -> N -> res (N * sexp)) (H : bytes -> bytes) : Prop :=
  run_exact_hyp run /\ run_quote_hyp run /\ rom_ok_hyp run H /\ rom_err_hyp run H.

(* ---- the compared part of a result ---- *)
Definition erase_s (s : spend) : spend :=
  {| sp_parent := sp_parent s; sp_amount := sp_amount s; sp_ph := sp_ph s; sp_coin_id := sp_coin_id s;
     sp_height_relative := sp_height_relative s; sp_seconds_relative := sp_seconds_relative s;
     sp_before_height_relative := sp_before_height_relative s;
     sp_before_seconds_relative := sp_before_seconds_relative s; sp_birth_height := sp_birth_height s;
     sp_birth_seconds := sp_birth_seconds s;
     sp_create_coin := sp_create_coin s; sp_agg_sig := sp_agg_sig s; sp_ff := sp_ff s; sp_dedup := sp_dedup s;
     sp_has_relative := sp_has_relative s; sp_exec_cost := 0; sp_cond_cost := sp_cond_cost s |}.

Definition erase_b (b : bundle) : bundle :=
  {| b_spends_rev := map erase_s (b_spends_rev b); b_reserve_fee := b_reserve_fee b;
     b_height_absolute := b_height_absolute b; b_seconds_absolute := b_seconds_absolute b;
     b_agg_sig_unsafe := b_agg_sig_unsafe b; b_before_height_absolute := b_before_height_absolute b;
     b_before_seconds_absolute := b_before_seconds_absolute b;
     b_cost := b_cost b; b_exec_cost := b_exec_cost b; b_cond_cost := b_cond_cost b;
     b_removal := b_removal b; b_addition := b_addition b |}.


Definition neutral (s : gresult) : gresult :=
  let '(b, spends, pairs) := s in (erase_b (set_costs b 0 0), map erase_s spends, pairs).

(* equal spends / conditions / amounts / fee / locks / condition cost / signature pairs; the native path
   never executes for more, and (outside INTERNED_GENERATOR mode, whose storage cost the legacy path does
   not implement) never costs more in total *)
Definition same_summary (gf : gflags) (s1 s2 : gresult) : Prop :=
  neutral s1 = neutral s2 /\
  b_exec_cost (fst (fst s2)) <= b_exec_cost (fst (fst s1)) /\
  (g_interned gf = false -> b_cost (fst (fst s2)) <= b_cost (fst (fst s1))).

Definition agree (gf : gflags) (l n : res gresult) : Prop :=
  match l, n with
  | Ok s1, Ok s2 => same_summary gf s1 s2
  | Err _, Err _ => True
  | _, _ => False
  end.

(* the atom that ends a (possibly improper) list *)
Fixpoint terminator (t : sexp) : bytes := match t with Pair _ r => terminator r | Atom b => b end.

Definition K0 : consts :=
  {| c_me := []; c_parent := []; c_puzzle := []; c_amount := []; c_puzzle_amount := []; c_parent_amount := [];
     c_parent_puzzle := [] |}.
Definition Hnull : bytes -> bytes := fun _ => [].

(* (q . (() . ())) : a generator with no spends *)
Definition EMPTY_GENERATOR : bytes := [xff; x01; xff; x80; x80].
(* (q . (((0x11*32 (q . ()) 1 ())))) : one spend, no conditions *)
Definition ONE_SPEND_GENERATOR : bytes :=
  ser' (Pair (Atom [x01])
          (Pair (Pair (Pair (Atom (repeat x11 32)) (Pair (Pair (Atom [x01]) nil) (Pair (Atom [x01]) (Pair nil nil)))) nil) nil)).
