(* Unit gen, C09 in-order rebuild: proofs.  (1) loop_bridge / bridge: this unit's mirror of run_block_generator2 and
   unit bundle's agree on plainly serialized quoted generators without references outside INTERNED_GENERATOR;
   (2) conv / build_conv: this unit's solution_generator mirror is unit bundle's on converted coin spends;
   (3) compose: unit bundle's agree_full_same (in order) and agree_rev (reversed feed) transported through the bridge;
   (4) rebuild_in_order: combined with rebuild_correct (the reversed feed reproduces the original summary);
   (5) joint_hypotheses: one oracle instance satisfies this unit's and unit bundle's hypotheses together. *)
From Coq Require Import Lia ZArith Permutation.
From ChiaV.Base Require Import Bytes Sha256.
From ChiaV.Clvm Require Import Sexp Ints IntsProofs TreeHash.
From ChiaV.Gen Require Import Opcodes Ladders ChainConsts Builder.
From ChiaV.Cond Require Import Model.
From ChiaV.Chain Require Import Backref BackrefProofs Rom Generator GeneratorSpec CondBudgetProofs GenToy GeneratorProofs
  Trusted TrustedSpec TrustedProofs TrustedRebuildProofs TrustedOrderSpec.
From ChiaV.Bundle Require SolutionGen SolutionGenProofs SpendBundle BlockPath AgreeProofs OrderProofs OrderFullProofs SexpProofs.
Open Scope N_scope.



Section Loop.
  Variable run : sexp -> sexp -> N -> res (N * sexp).
  Variable valid_key : bytes -> bool.
  Variable H : bytes -> bytes.
  Variable K : consts.
  Variable bfl : SpendBundle.bflags.
  Variable sig_ok : list (bytes * bytes) -> bool.
  Variable cpb : N.
  Variable gen_args : sexp.
  Hypothesis Hrun : run_intrinsic_hyp run.
  Notation fl := (SpendBundle.bf_cond bfl).

  (* one evaluation: Chain's run_program (budget 0 = unlimited) and Bundle's direct call *)
  Lemma run_cases p s m :
    (exists c r, c <= m /\ run_program run p s m = Ok (c, r) /\ run p s m = Ok (c, r)) \/
    ((forall c r, run_program run p s m = Ok (c, r) -> m < c) /\ exists e, run p s m = Err e).
  Proof.
    unfold run_program. destruct (Hrun p s) as [(c & r & E)|E].
    - destruct (N.le_gt_cases c m) as [LE|GT].
      + left. exists c, r. split; [exact LE|]. rewrite !E.
        assert (L1 : m <? c = false) by (apply N.ltb_ge; exact LE).
        destruct (m =? 0) eqn:Z; rewrite ?L1; [|split; reflexivity].
        apply N.eqb_eq in Z. assert (c = 0) by lia. subst. split; reflexivity.
      + right. split.
        * intros c' r'. rewrite E. destruct (_ <? c); intro X; inversion X; subst. exact GT.
        * rewrite E. assert (m <? c = true) as -> by (apply N.ltb_lt; exact GT). eauto.
    - right. split; [|apply E]. intros c r X. destruct (E (if m =? 0 then COST_MAX else m)) as [e Y]. congruence.
  Qed.

  Lemma loop_bridge : forall iter retM retT st m ex sl,
    AgreeProofs.erase_b retM = AgreeProofs.erase_b retT ->
    match native_loop run valid_key H K iter retM st m ex sl fl,
          BlockPath.gen_loop valid_key H K run bfl iter retT st m sl return Prop with
    | Ok (r, s, l, e, term), Ok (r', s', l', term') =>
        AgreeProofs.erase_b r = AgreeProofs.erase_b r' /\ s = s' /\ l = l' /\ term = term' /\
        e + b_exec_cost retT = ex + b_exec_cost r'
    | Err _, Err _ => True
    | _, _ => False
    end.
  Proof.
    induction iter as [b|sp _ tl IH]; intros retM retT st m ex sl ER.
    - cbn. repeat split; try assumption.
    - cbn [native_loop BlockPath.gen_loop].
      destruct sl as [[|slp]|]; [exact I| |].
      all: destruct sp as [|p [|pz [|am [|sol ext]]]]; try exact I;
        cbn [extract_5 BlockPath.extract_n bind];
        destruct (run_cases pz sol m) as [(c & conds & LE & RM & RT)|[RM [e RT]]].
      all: try (rewrite RT; cbn [bind];
                destruct (run_program run pz sol m) as [[c conds]|]; cbn [bind]; [|exact I];
                unfold Generator.subtract_cost; specialize (RM c conds eq_refl);
                assert (m <? c = true) as -> by (apply N.ltb_lt; exact RM); cbn [bind]; exact I).
      all: rewrite RM, RT; cbn [bind];
        unfold Generator.subtract_cost, SpendBundle.subtract_cost;
        assert (m <? c = false) as -> by (apply N.ltb_ge; exact LE); cbn [bind];
        pose proof (AgreeProofs.pss_rel valid_key H K fl VEmpty VEmpty retM (SpendBundle.b_add_exec retT c) st
                      p (Atom (th H pz)) am conds (m - c) c ER) as PR;
        destruct (AgreeProofs.lift_eq_cases _ _ _ PR) as [([[r1 s1] l1] & [[r1' s1'] l1'] & E1 & E2 & E3)|(e & E1 & E2)];
        rewrite E1, E2; cbn [bind]; [|exact I];
        cbn [AgreeProofs.erase3] in E3;
        pose proof (f_equal (fun x => fst (fst x)) E3) as E3a; pose proof (f_equal (fun x => snd (fst x)) E3) as E3b;
        pose proof (f_equal snd E3) as E3c; cbn [fst snd] in E3a, E3b, E3c; clear E3; subst s1' l1';
        pose proof (AgreeProofs.pss_exec valid_key H K fl VEmpty _ _ _ _ _ _ _ _ _ _ _ E2) as EX;
        cbn [SpendBundle.b_add_exec b_exec_cost] in EX.
      all: match goal with E3a : AgreeProofs.erase_b ?r1 = AgreeProofs.erase_b ?r1' |- context [native_loop _ _ _ _ _ ?r1 ?s1 ?l1 ?e1 ?sl1 _] =>
          specialize (IH r1 r1' s1 l1 e1 sl1 E3a) end.
      all: match goal with IH : match native_loop _ _ _ _ ?tl0 ?a ?b ?c0 ?d ?sl1 _ with _ => _ end |- _ =>
          destruct (native_loop run valid_key H K tl0 a b c0 d sl1 fl) as [[[[[r s] l] e] term]|];
          destruct (BlockPath.gen_loop valid_key H K run bfl tl0 r1' b c0 sl1) as [[[[r' s'] l'] term']|]; try exact IH end.
      all: destruct IH as (? & ? & ? & ? & ?); repeat split; try assumption; lia.
  Qed.
End Loop.

Lemma prepass_eq t : BlockPath.prepass t = Generator.prepass t.
Proof.
  induction t as [b|sp _ tl IH]; [reflexivity|]. cbn [BlockPath.prepass Generator.prepass].
  destruct sp as [|a [|b r]]; cbn; try reflexivity. exact IH.
Qed.

Section Bridge.
  Variable run : sexp -> sexp -> N -> res (N * sexp).
  Variable valid_key : bytes -> bool.
  Variable sig_ok : list (bytes * bytes) -> bool.
  Variable H : bytes -> bytes.
  Variable K : consts.
  Variable gen_args : sexp.
  Hypothesis Hrun : run_intrinsic_hyp run.
  Hypothesis Hquote : run_quote_exact_hyp run.

  Theorem bridge X program max_cost gf :
    ser (Pair (Atom [x01]) X) = Some program -> g_interned gf = false ->
    bridged (Generator.run_block_generator2 run valid_key sig_ok H K program [] max_cost gf)
            (BlockPath.run_block_generator2 valid_key H K run sig_ok COST_PER_BYTE (bflags_of gf) gen_args program (nlen program) max_cost).
  Proof.
    intros SER NI. unfold Generator.run_block_generator2, BlockPath.run_block_generator2.
    cbn [bflags_of SpendBundle.bf_simple SpendBundle.bf_interned SpendBundle.bf_cond]. rewrite NI.
    assert (exists tl0, program = xff :: x01 :: tl0) as [tl0 PE].
    { cbn [ser] in SER. change (ser_atom [x01]) with (Some [x01]) in SER. destruct (ser X); [|discriminate SER].
      inversion SER. eexists; reflexivity. }
    assert (CQ : check_generator_quote program gf = Ok tt).
    { subst program. unfold check_generator_quote. destruct (negb (g_simple gf)); reflexivity. }
    assert (SQ : BlockPath.starts_with_quote program = true) by (subst program; reflexivity).
    rewrite CQ, SQ. cbn [negb andb bind]. rewrite Bool.andb_false_r.
    unfold deser_program, SpendBundle.parse_node. rewrite (backrefs_ser _ _ SER), (SexpProofs.node_from_bytes_ser _ _ SER).
    cbn [bind]. unfold base_cost. rewrite NI. cbv iota.
    unfold Generator.subtract_cost at 1, SpendBundle.subtract_cost at 1.
    destruct (max_cost <? nlen program * COST_PER_BYTE); cbn [bind]; [exact I|].
    set (cl := max_cost - nlen program * COST_PER_BYTE).
    assert (CN : check_generator_node (Pair (Atom [x01]) X) gf = Ok tt).
    { unfold check_generator_node. destruct (negb (g_simple gf)); reflexivity. }
    rewrite CN. cbn [bind].
    assert (CN2 : (if g_simple gf then (if byte_eqb x01 x01 then Ok tt else Err GeneratorRuntimeError) else Ok tt) = Ok tt)
      by (destruct (g_simple gf); reflexivity).
    rewrite CN2. cbn [bind].
    assert (exists args, setup_generator_args [] gf = Ok args) as [args ->]
      by (unfold setup_generator_args; destruct (g_simple gf); eexists; reflexivity).
    cbn [bind]. rewrite Hquote. unfold run_program. rewrite Hquote.
    destruct (N.ltb_spec cl 20) as [LT|GE].
    - (* below the quote's cost *)
      destruct (cl =? 0) eqn:Z.
      + change (COST_MAX <? 20) with false. cbv iota. cbn [bind]. unfold Generator.subtract_cost.
        apply N.eqb_eq in Z. rewrite Z. cbn. exact I.
      + assert (cl <? 20 = true) as -> by (apply N.ltb_lt; exact LT). exact I.
    - assert (E20 : (if cl =? 0 then COST_MAX else cl) <? 20 = false).
      { destruct (cl =? 0) eqn:Z; [reflexivity|]. apply N.ltb_ge; exact GE. }
      rewrite E20. cbn [bind]. unfold Generator.subtract_cost at 1, SpendBundle.subtract_cost at 1.
      assert (cl <? 20 = false) as -> by (apply N.ltb_ge; exact GE). cbn [bind].
      destruct (first X) as [iter|]; cbn [bind]; [|exact I].
      rewrite prepass_eq. destruct (Generator.prepass iter) as [[]|]; cbn [bind]; [|exact I].
      set (sl := if f_limit_spends (g_cond gf) then Some MAX_SPENDS_PER_BLOCK else None).
      pose proof (loop_bridge run valid_key H K (bflags_of gf) Hrun iter empty_bundle (SpendBundle.b_add_exec empty_bundle 20)
                   empty_state (cl - 20) 20 sl eq_refl) as LB.
      cbn [bflags_of SpendBundle.bf_cond] in LB.
      destruct (native_loop run valid_key H K iter empty_bundle empty_state (cl - 20) 20 sl (g_cond gf))
        as [[[[[r s] l] e] term]|];
      destruct (BlockPath.gen_loop valid_key H K run (bflags_of gf) iter (SpendBundle.b_add_exec empty_bundle 20) empty_state (cl - 20) sl)
        as [[[[r' s'] l'] term']|]; cbn [bind]; try exact LB; try (exfalso; exact LB).
      destruct LB as (ER & <- & <- & <- & EX). cbn [SpendBundle.b_add_exec b_exec_cost empty_bundle] in EX.
      destruct term as [[|]|]; try exact I.
      assert (SPE : map AgreeProofs.erase_sp (fast_rev (b_spends_rev r)) = map AgreeProofs.erase_sp (fast_rev (b_spends_rev r'))).
      { rewrite !map_fast_rev. f_equal. apply (f_equal b_spends_rev) in ER. exact ER. }
      rewrite (AgreeProofs.validate_rel H r r' _ _ s ER SPE).
      destruct (validate_conditions H r' (fast_rev (b_spends_rev r')) s) as [[]|]; cbn [bind]; [|exact I].
      unfold validate_signature.
      destruct (f_dont_validate (g_cond gf)); cbn [negb andb bind].
      + unfold bridged. repeat split; try assumption; cbn; try lia.
        all: unfold AgreeProofs.erase_b, set_costs, SpendBundle.b_set_cost in *; cbn; inversion ER; congruence.
      + destruct (sig_ok (fast_rev (s_pkm_pairs_rev s))); cbn [negb bind]; [|exact I].
        unfold bridged. repeat split; try assumption; cbn; try lia.
        all: unfold AgreeProofs.erase_b, set_costs, SpendBundle.b_set_cost in *; cbn; inversion ER; congruence.
  Qed.
End Bridge.



Lemma program_of_ser t : fits t -> ser t = Some (program_of t).
Proof.
  intros (b & S & L). unfold program_of. rewrite S.
  assert (2000000 <? nlen b = false) as -> by (apply N.ltb_ge; exact L). reflexivity.
Qed.

Lemma parse_amount_lt am e amt : parse_amount am e = Ok amt -> amt < 2 ^ 64.
Proof.
  unfold parse_amount, sanitize_uint_node. destruct am as [ab|]; cbn; [|discriminate].
  destruct (sanitize_uint ab 8) eqn:SU; cbn; try discriminate. intro E; inversion E; subst.
  apply sanitize_uint_ok_iff in SU. destruct SU as [_ L]. exact L.
Qed.

Section Good.
  Variable H : bytes -> bytes.

  Lemma good_conv sp t : matches H (snd (removal_of sp)) t -> length (sp_parent sp) = 32%nat -> fits_tuple t ->
    AgreeProofs.good_spend H (conv (coin_spend_of_tuple sp t)) /\
    Trusted.spend_item (coin_spend_of_tuple sp t) = SolutionGen.item_of (conv (coin_spend_of_tuple sp t)).
  Proof.
    destruct t as [[[p pz] am] sol]. intros (P1 & P2 & P3) LEN (F1 & F2).
    cbn [removal_of snd co_parent co_amount co_ph] in *.
    split.
    - split; [split; [|split; [|split]]|].
      + exists pz. cbn. exact (program_of_ser _ F1).
      + exists sol. cbn. exact (program_of_ser _ F2).
      + exact LEN.
      + cbn. exact (parse_amount_lt _ _ _ P2).
      + exists pz. cbn. split; [exact (SexpProofs.node_from_bytes_ser _ _ (program_of_ser _ F1))|symmetry; exact P3].
    - unfold Trusted.spend_item, SolutionGen.item_of, conv, coin_spend_of_tuple.
      cbn [Trusted.cs_solution Trusted.cs_puzzle Trusted.cs_coin SolutionGen.cs_solution SolutionGen.cs_puzzle
           SolutionGen.cs_parent SolutionGen.cs_amount removal_of snd co_parent co_amount].
      rewrite (program_of_fits _ F1), (program_of_fits _ F2).
      rewrite (SexpProofs.node_from_bytes_ser _ _ (program_of_ser _ F1)), (SexpProofs.node_from_bytes_ser _ _ (program_of_ser _ F2)).
      reflexivity.
  Qed.
End Good.

Lemma prepend_conv l : Forall (fun c => Trusted.spend_item c = SolutionGen.item_of (conv c)) l ->
  forall acc, Trusted.prepend_spends l acc = SolutionGen.prepend_spends (map conv l) acc.
Proof.
  induction 1 as [|c l E F IH]; intro acc; [reflexivity|].
  cbn [Trusted.prepend_spends SolutionGen.prepend_spends map]. rewrite E.
  destruct (SolutionGen.item_of (conv c)); [apply IH|reflexivity].
Qed.

Lemma build_conv l : Forall (fun c => Trusted.spend_item c = SolutionGen.item_of (conv c)) l ->
  Trusted.build_generator l = SolutionGen.build_generator (map conv l).
Proof.
  intro F. unfold Trusted.build_generator, SolutionGen.build_generator. rewrite (prepend_conv l F).
  destruct (SolutionGen.prepend_spends (map conv l) nil); reflexivity.
Qed.



Section Len.
  Variable run : sexp -> sexp -> N -> res (N * sexp).
  Variable valid_key : bytes -> bool.
  Variable H : bytes -> bytes.
  Variable K : consts.
  Variable fl : cflags.

  Lemma tuples_spends_len : forall iter ret st m ex sl r s l e term,
    native_loop run valid_key H K iter ret st m ex sl fl = Ok (r, s, l, e, term) ->
    exists news, b_spends_rev r = rev news ++ b_spends_rev ret /\
                 Forall2 (fun sp t => matches H (snd (removal_of sp)) t /\ length (sp_parent sp) = 32%nat) news (spend_tuples iter).
  Proof.
    induction iter as [b|sp _ tl0 IH]; intros ret st m ex sl r s l e term E.
    - cbn in E. inversion E; subst. exists []. split; [reflexivity|constructor].
    - destruct (native_step _ _ _ _ _ _ _ _ _ _ _ _ _ _ _ _ _ E)
        as (p & pz & am & sol & ext & parent & amt & ab & r1 & s1 & l1 & ex1 & -> & -> & LEN & PA & AO & LN & _ &
            (spd & BS & F1 & F2 & F3) & E2).
      destruct (IH _ _ _ _ _ _ _ _ _ _ E2) as (news & BS2 & FA).
      exists (spd :: news). split.
      + rewrite BS2, BS. cbn [rev]. rewrite <- app_assoc. reflexivity.
      + cbn [spend_tuples]. constructor; [|exact FA]. split; [|rewrite F1; exact LEN].
        unfold matches, removal_of. cbn. rewrite F1, F2, F3. repeat split; try reflexivity. exact PA.
  Qed.
End Len.

Section InOrder.
  Variable run : sexp -> sexp -> N -> res (N * sexp).
  Variable valid_key : bytes -> bool.
  Variable sig_ok : list (bytes * bytes) -> bool.
  Variable H : bytes -> bytes.
  Variable K : consts.
  Hypothesis Hrun : run_intrinsic_hyp run.
  Hypothesis Hquote : run_quote_exact_hyp run.
  Hypothesis Hsig : forall l l', Permutation l l' -> sig_ok l = sig_ok l'.

  Notation native := (Generator.run_block_generator2 run valid_key sig_ok H K).
  Notation theirs gf := (BlockPath.run_block_generator2 valid_key H K run sig_ok COST_PER_BYTE (bflags_of gf) nil).
  Notation o := (AgreeProofs.overhead COST_PER_BYTE).

  (* composing the two C08 theorems and the bridge *)
  Lemma compose gf L gF gR pF pR m :
    g_interned gf = false ->
    Forall (AgreeProofs.good_spend H) L -> N.of_nat (length L) <= MAX_SPENDS_PER_BLOCK ->
    SolutionGen.build_generator L = Some gF -> ser gF = Some pF ->
    SolutionGen.build_generator (rev L) = Some gR -> ser gR = Some pR ->
    match native pF [] (m + o) gf, native pR [] (m + o) gf return Prop with
    | Ok sF, Ok sR => reversed_summary sF sR
    | Err _, Err _ => True
    | _, _ => False
    end.
  Proof.
    intros NI GOOD LIM BF SF BR SR.
    assert (NI' : SpendBundle.bf_interned (bflags_of gf) = false) by exact NI.
    pose proof (OrderFullProofs.agree_full_same valid_key H K run sig_ok COST_PER_BYTE (bflags_of gf) nil Hquote Hrun Hsig
                  L gF pF m GOOD NI' LIM BF SF) as A1.
    assert (GOODR : Forall (AgreeProofs.good_spend H) (rev L)) by (apply Forall_rev; exact GOOD).
    assert (LIMR : N.of_nat (length (rev L)) <= MAX_SPENDS_PER_BLOCK) by (rewrite rev_length; exact LIM).
    pose proof (AgreeProofs.agree_rev valid_key H K run sig_ok COST_PER_BYTE (bflags_of gf) nil Hquote
                  (rev L) gR pR m GOODR NI' LIMR BR SR) as A2.
    rewrite rev_involutive in A2.
    assert (XF : exists X, gF = Pair (Atom [x01]) X).
    { unfold SolutionGen.build_generator in BF. destruct (SolutionGen.prepend_spends L nil); inversion BF. eexists; reflexivity. }
    assert (XR : exists X, gR = Pair (Atom [x01]) X).
    { unfold SolutionGen.build_generator in BR. destruct (SolutionGen.prepend_spends (rev L) nil); inversion BR. eexists; reflexivity. }
    destruct XF as [XF ->]. destruct XR as [XR ->].
    pose proof (bridge run valid_key sig_ok H K nil Hrun Hquote XF pF (m + o) gf SF NI) as B_F.
    pose proof (bridge run valid_key sig_ok H K nil Hrun Hquote XR pR (m + o) gf SR NI) as B_R.
    unfold bridged in *.
    destruct (native pF [] (m + o) gf) as [[[bF spF] ppF]|];
    destruct (theirs gf pF (nlen pF) (m + o)) as [[[bF' spF'] ppF']|]; try contradiction;
    destruct (native pR [] (m + o) gf) as [[[bR spR] ppR]|];
    destruct (theirs gf pR (nlen pR) (m + o)) as [[[bR' spR'] ppR']|]; try contradiction;
    destruct (AgreeProofs.mempool_path valid_key H K run sig_ok COST_PER_BYTE (bflags_of gf) L m) as [[[bM spM] ppM]|];
      try contradiction; try exact I.
    destruct B_F as (EF & CF & XF' & SPF & ->). destruct B_R as (ER & CR & XR' & SPR & ->).
    destruct A1 as (AS & SP1 & PU1 & CC1 & EX1). destruct A2 as (S1 & S2 & S3 & S4 & S5).
    unfold OrderProofs.agree_summary in AS. cbn [fst snd] in *.
    destruct AS as (G1 & G2 & G3 & G4 & G5 & G6 & G7 & G8 & G9).
    destruct (AgreeProofs.erase_b_fields _ _ EF) as (_ & F2 & F3 & F4 & F5 & F6 & F7 & F8 & F9 & F10).
    destruct (AgreeProofs.erase_b_fields _ _ ER) as (_ & R2 & R3 & R4 & R5 & R6 & R7 & R8 & R9 & R10).
    destruct (AgreeProofs.erase_b_fields _ _ S1) as (_ & M2 & M3 & M4 & M5 & M6 & M7 & M8 & M9 & M10).
    unfold reversed_summary. subst ppR'.
    repeat split; try congruence; try lia.
    change erase_flags with AgreeProofs.erase_sp. rewrite SPF, SP1, SPR, S4. reflexivity.
  Qed.
End InOrder.

Lemma intrinsic_exact run : run_intrinsic_hyp run -> run_exact_hyp run.
Proof.
  intros HR p a b c r E b'. destruct (HR p a) as [(c0 & r0 & F)|F].
  - rewrite F in E. destruct (b <? c0); [discriminate E|]. inversion E; subst. rewrite F.
    destruct (N.ltb_spec b' c) as [L|L].
    + assert (c <=? b' = false) as -> by (apply N.leb_gt; exact L). reflexivity.
    + assert (c <=? b' = true) as -> by (apply N.leb_le; exact L). reflexivity.
  - destruct (F b) as [e X]. congruence.
Qed.

Lemma quote_exact_quote run : run_quote_exact_hyp run -> run_quote_hyp run.
Proof.
  intros HQ x env b L. rewrite HQ. assert (b <? 20 = false) as -> by (apply N.ltb_ge; exact L). reflexivity.
Qed.

Lemma erase_commute s : erase_s (erase_flags s) = erase_flags (erase_s s).
Proof. destruct s; reflexivity. Qed.

Section TopInOrder.
  Variable run : sexp -> sexp -> N -> res (N * sexp).
  Variable valid_key : bytes -> bool.
  Variable sig_ok : list (bytes * bytes) -> bool.
  Variable H : bytes -> bytes.
  Variable K : consts.
  Hypothesis Hrun : run_intrinsic_hyp run.
  Hypothesis Hquote : run_quote_exact_hyp run.
  Hypothesis Hsig : forall l l', Permutation l l' -> sig_ok l = sig_ok l'.

  Notation native := (Generator.run_block_generator2 run valid_key sig_ok H K).
  Notation o := (AgreeProofs.overhead COST_PER_BYTE).

  Theorem rebuild_in_order program refs max_cost gf b spends pairs :
    native program refs max_cost gf = Ok (b, spends, pairs) ->
    max_cost <= MAX_BLOCK_COST_CLVM ->
    g_interned gf = false -> N.of_nat (length spends) <= MAX_SPENDS_PER_BLOCK ->
    exists out iter cs,
      native_generator_output run program refs max_cost gf = Ok out /\ first out = Ok iter /\
      get_coinspends_for_trusted_block run H program refs gf = Ok cs /\
      (Forall fits_tuple (spend_tuples iter) ->
       forall pF pR m,
         Trusted.solution_generator cs = Some pF -> Trusted.solution_generator (rev cs) = Some pR ->
         match native pF [] (m + o) gf, native pR [] (m + o) gf return Prop with
         | Ok sF, Ok sR => reversed_summary sF sR /\ neutral sR = neutral (b, spends, pairs) /\
                           reversed_of_original sF (b, spends, pairs)
         | Err _, Err eR => eR = CostExceeded
         | _, _ => False
         end).
  Proof.
    intros E LM NI LIM.
    pose proof (intrinsic_exact run Hrun) as HE. pose proof (quote_exact_quote run Hquote) as HQ.
    destruct (rebuild_correct run valid_key sig_ok H K HE HQ _ _ _ _ _ _ _ E LM) as (out & iter & cs & GO & FO & CS & RB).
    exists out, iter, cs. split; [exact GO|]. split; [exact FO|]. split; [exact CS|].
    intros FITS pF pR m SGF SGR. destruct (RB FITS) as [BGR RBR]. specialize (RBR pR (m + o) SGR).
    (* the explicit form of the recovered coin spends *)
    destruct (coinspends_correct run valid_key sig_ok H K HE _ _ _ _ _ _ _ E LM) as (out' & iter' & GO' & FO' & LEN & CS').
    rewrite GO in GO'. inversion GO'; subst out'. rewrite FO in FO'. inversion FO'; subst iter'. rewrite CS in CS'.
    inversion CS' as [CSE]. clear CS' GO' FO'.
    (* facts about the accepted run *)
    assert (FA : Forall2 (fun sp t => matches H (snd (removal_of sp)) t /\ length (sp_parent sp) = 32%nat) spends (spend_tuples iter)).
    { clear RBR RB BGR SGF SGR. unfold Generator.run_block_generator2 in E. unfold native_generator_output in GO.
      destruct (check_generator_quote program gf) as [[]|]; cbn [bind] in E; [|discriminate E].
      destruct (deser_program program) as [prog|]; cbn [bind] in *; [|discriminate E].
      destruct (Generator.subtract_cost max_cost (base_cost program prog gf)) as [clN|]; cbn [bind] in *; [|discriminate E].
      destruct (check_generator_node prog gf) as [[]|]; cbn [bind] in E; [|discriminate E].
      destruct (setup_generator_args refs gf) as [args|]; cbn [bind] in *; [|discriminate E].
      destruct (run_program run prog args clN) as [[c0 out0]|]; cbn [bind] in *; [|discriminate E].
      inversion GO; subst out0; clear GO.
      destruct (Generator.subtract_cost clN c0) as [cl1|]; cbn [bind] in E; [|discriminate E].
      rewrite FO in E. cbn [bind] in E.
      destruct (Generator.prepass iter) as [[]|]; cbn [bind] in E; [|discriminate E].
      destruct (native_loop run valid_key H K iter empty_bundle empty_state cl1 c0
                  (if f_limit_spends (g_cond gf) then Some MAX_SPENDS_PER_BLOCK else None) (g_cond gf))
        as [[[[[ret state] cl2] exec] term]|] eqn:NLp; cbn [bind] in E; [|discriminate E].
      destruct term as [[|]|]; try discriminate E.
      destruct (validate_conditions H ret (fast_rev (b_spends_rev ret)) state) as [[]|]; cbn [bind] in E; [|discriminate E].
      destruct (validate_signature sig_ok (g_cond gf) (fast_rev (s_pkm_pairs_rev state))) as [[]|]; cbn [bind] in E; [|discriminate E].
      inversion E; subst.
      destruct (tuples_spends_len run valid_key H K (g_cond gf) _ _ _ _ _ _ _ _ _ _ _ NLp) as (news & BS & FA).
      cbn [empty_bundle b_spends_rev] in BS. rewrite app_nil_r in BS. rewrite BS, fast_rev_rev, rev_involutive. exact FA. }
    assert (GC : Forall (fun c => AgreeProofs.good_spend H (conv c) /\ Trusted.spend_item c = SolutionGen.item_of (conv c)) cs).
    { subst cs. clear - FA FITS. revert FITS. induction FA as [|sp t sps ts [M L] FA IH]; intro FITS; cbn; [constructor|].
      inversion FITS; subst. constructor; [|apply IH; assumption]. cbn [fst snd]. apply good_conv; assumption. }
    assert (GOOD : Forall (AgreeProofs.good_spend H) (map conv cs)).
    { apply Forall_map. eapply Forall_impl; [|exact GC]. intros c [A _]. exact A. }
    assert (ITEMS : Forall (fun c => Trusted.spend_item c = SolutionGen.item_of (conv c)) cs).
    { eapply Forall_impl; [|exact GC]. intros c [_ A]. exact A. }
    assert (LIM' : N.of_nat (length (map conv cs)) <= MAX_SPENDS_PER_BLOCK).
    { rewrite map_length. subst cs. rewrite map_length, combine_length, <- LEN, Nat.min_id. exact LIM. }
    (* the two rebuilt programs *)
    unfold Trusted.solution_generator in SGF, SGR.
    rewrite (build_conv cs ITEMS) in SGF.
    rewrite (build_conv (rev cs) ltac:(apply Forall_rev; exact ITEMS)), map_rev in SGR.
    destruct (SolutionGen.build_generator (map conv cs)) as [gF|] eqn:BF; [|discriminate SGF].
    destruct (SolutionGen.build_generator (rev (map conv cs))) as [gR|] eqn:BR; [|discriminate SGR].
    destruct (ser gF) as [bF|] eqn:SF; [|discriminate SGF]. destruct (2000000 <? nlen bF); [discriminate SGF|]. inversion SGF; subst bF.
    destruct (ser gR) as [bR|] eqn:SR; [|discriminate SGR]. destruct (2000000 <? nlen bR); [discriminate SGR|]. inversion SGR; subst bR.
    pose proof (compose run valid_key sig_ok H K Hrun Hquote Hsig gf (map conv cs) gF gR pF pR m NI GOOD LIM' BF SF BR SR) as CP.
    destruct (native pF [] (m + o) gf) as [sF|eF]; destruct (native pR [] (m + o) gf) as [sR|eR]; try contradiction.
    - split; [exact CP|]. split; [exact RBR|].
      destruct sF as [[bF spF] ppF]. destruct sR as [[bR spR] ppR].
      unfold reversed_summary in CP. destruct CP as (C1 & C2 & C3 & C4 & C5 & C6 & C7 & C8 & C9 & C10 & C11 & C12 & C13).
      unfold neutral in RBR.
      pose proof (f_equal (fun x => fst (fst x)) RBR) as N1. pose proof (f_equal (fun x => snd (fst x)) RBR) as N2.
      pose proof (f_equal snd RBR) as N3. cbn [fst snd] in N1, N2, N3. subst ppR.
      assert (NF : b_cond_cost bR = b_cond_cost b /\ b_removal bR = b_removal b /\ b_addition bR = b_addition b /\
                   b_reserve_fee bR = b_reserve_fee b /\ b_height_absolute bR = b_height_absolute b /\
                   b_seconds_absolute bR = b_seconds_absolute b /\ b_before_height_absolute bR = b_before_height_absolute b /\
                   b_before_seconds_absolute bR = b_before_seconds_absolute b /\ b_agg_sig_unsafe bR = b_agg_sig_unsafe b).
      { unfold erase_b, set_costs in N1. cbn in N1. inversion N1. repeat split; assumption. }
      destruct NF as (Q1 & Q2 & Q3 & Q4 & Q5 & Q6 & Q7 & Q8 & Q9).
      unfold reversed_of_original. repeat split; try congruence.
      assert (CM : forall l, map erase_flags (map erase_s l) = map erase_s (map erase_flags l)).
      { intro l. rewrite !map_map. apply map_ext. intro s. symmetry. apply erase_commute. }
      rewrite CM, C11, map_rev, <- CM, N2. reflexivity.
    - exact RBR.
  Qed.
End TopInOrder.



Lemma overhead_eq : AgreeProofs.overhead COST_PER_BYTE = REBUILD_OVERHEAD.
Proof. exact (AgreeProofs.overhead_value COST_PER_BYTE). Qed.

(* the toy oracle satisfies C08's hypotheses as well *)
Lemma toy_intrinsic H : run_intrinsic_hyp (toy_run H).
Proof.
  intros p s. unfold toy_run. destruct (sexp_eqb p ROM).
  - destruct s as [|g s2]; [right; intro b0; eauto|].
    destruct s2 as [|s3 s4]; [right; intro b0; eauto|].
    destruct s3 as [|r s5]; [right; intro b0; eauto|].
    destruct s5 as [[|]|]; try (right; intro b0; eauto; fail).
    destruct s4 as [[|]|]; try (right; intro b0; eauto; fail).
    destruct (rom_eval toy_sub H g (atoms_of r)) as [[c' out]|]; [|right; intro b0; eauto].
    left. exists (c' + TOY_ROM_OVERHEAD), out. intro b0.
    destruct (N.ltb_spec b0 (c' + TOY_ROM_OVERHEAD)) as [L|L].
    + assert (c' + TOY_ROM_OVERHEAD <=? b0 = false) as -> by (apply N.leb_gt; exact L). reflexivity.
    + assert (c' + TOY_ROM_OVERHEAD <=? b0 = true) as -> by (apply N.leb_le; exact L). reflexivity.
  - unfold toy_sub. destruct p as [|p1 x]; [right; intro b0; eauto|].
    destruct p1 as [[|c [|]]|]; try (right; intro b0; eauto; fail).
    destruct (b2n c =? 1); [|right; intro b0; eauto].
    left. exists 20, x. intro b0. destruct (N.ltb_spec b0 20) as [L|L].
    + assert (20 <=? b0 = false) as -> by (apply N.leb_gt; exact L). reflexivity.
    + assert (20 <=? b0 = true) as -> by (apply N.leb_le; exact L). reflexivity.
Qed.

Lemma toy_quote_exact H : run_quote_exact_hyp (toy_run H).
Proof.
  intros x args b. unfold toy_run. rewrite (quote_not_rom x01 x eq_refl). cbn.
  destruct (N.ltb_spec b 20) as [L|L].
  - assert (20 <=? b = false) as -> by (apply N.leb_gt; exact L). reflexivity.
  - assert (20 <=? b = true) as -> by (apply N.leb_le; exact L). reflexivity.
Qed.

(* all hypotheses used anywhere in C07/C09 hold together for the toy oracle *)
Lemma joint_hypotheses H :
  run_oracle_ok (toy_run H) H /\ run_intrinsic_hyp (toy_run H) /\ run_quote_exact_hyp (toy_run H) /\
  (forall l l' : list (bytes * bytes), Permutation l l' -> (fun _ => true) l = (fun _ => true) l').
Proof. split; [apply toy_oracle_ok|]. split; [apply toy_intrinsic|]. split; [apply toy_quote_exact|]. reflexivity. Qed.

(* the statement used by Props/C09.v: budget margin as the explicit constant *)
Theorem rebuild_in_order_thm run valid_key sig_ok H K :
  run_intrinsic_hyp run -> run_quote_exact_hyp run ->
  (forall l l' : list (bytes * bytes), Permutation l l' -> sig_ok l = sig_ok l') ->
  forall program refs max_cost gf b spends pairs,
    Generator.run_block_generator2 run valid_key sig_ok H K program refs max_cost gf = Ok (b, spends, pairs) ->
    max_cost <= MAX_BLOCK_COST_CLVM ->
    g_interned gf = false -> N.of_nat (length spends) <= MAX_SPENDS_PER_BLOCK ->
    exists out iter cs,
      native_generator_output run program refs max_cost gf = Ok out /\ first out = Ok iter /\
      get_coinspends_for_trusted_block run H program refs gf = Ok cs /\
      (Forall fits_tuple (spend_tuples iter) ->
       forall pF pR m,
         Trusted.solution_generator cs = Some pF -> Trusted.solution_generator (rev cs) = Some pR ->
         match Generator.run_block_generator2 run valid_key sig_ok H K pF [] (m + REBUILD_OVERHEAD) gf,
               Generator.run_block_generator2 run valid_key sig_ok H K pR [] (m + REBUILD_OVERHEAD) gf return Prop with
         | Ok sF, Ok sR => reversed_summary sF sR /\ neutral sR = neutral (b, spends, pairs) /\
                           reversed_of_original sF (b, spends, pairs)
         | Err _, Err eR => eR = CostExceeded
         | _, _ => False
         end).
Proof.
  intros Hrun Hquote Hsig program refs max_cost gf b spends pairs E LM NI LIM.
  rewrite <- overhead_eq. exact (rebuild_in_order run valid_key sig_ok H K Hrun Hquote Hsig _ _ _ _ _ _ _ E LM NI LIM).
Qed.

(* non-vacuity with all hypotheses together: a two-spend generator; the in-order rebuild differs from the original
   program, is accepted, and reports the two spends in the other order *)
Lemma in_order_example :
  exists run H, run_oracle_ok run H /\ run_intrinsic_hyp run /\ run_quote_exact_hyp run /\
  exists vk sig K program max_cost gf b spends pairs cs pF sF m,
    (forall l l' : list (bytes * bytes), Permutation l l' -> sig l = sig l') /\
    run_block_generator2 run vk sig H K program [] max_cost gf = Ok (b, spends, pairs) /\
    length spends = 2%nat /\
    get_coinspends_for_trusted_block run H program [] gf = Ok cs /\
    solution_generator cs = Some pF /\ pF <> program /\
    run_block_generator2 run vk sig H K pF [] (m + REBUILD_OVERHEAD) gf = Ok sF /\
    reversed_of_original sF (b, spends, pairs) /\
    map erase_flags (map erase_s (snd (fst sF))) <> map erase_flags (map erase_s spends).
Proof.
  exists (toy_run sha256), sha256. destruct (joint_hypotheses sha256) as (A & B & C & D).
  split; [exact A|]. split; [exact B|]. split; [exact C|].
  exists (fun _ => false), (fun _ => true), K0, TWO_SPEND_GENERATOR, 11000000000, (gflags_of_bits 0).
  do 6 eexists. exists 11000000000.
  split; [reflexivity|].
  split; [vm_compute; reflexivity|]. split; [reflexivity|]. split; [vm_compute; reflexivity|].
  split; [vm_compute; reflexivity|]. split; [vm_compute; discriminate|]. split; [vm_compute; reflexivity|].
  split; [|vm_compute; discriminate].
  vm_compute. repeat split; constructor.
Qed.
