(* Chain/Intern.v — clvmr serde/intern.rs + chia-consensus generator_cost.rs:
   interned_vbytes(tree) = atom_bytes + 2 * atom_count + 3 * pair_count over the DISTINCT atoms
   (by content) and the DISTINCT pairs (by the identity of their interned children).
   Model of a dependency (clvmr): distinct subtrees are numbered through finite maps. Definitions only. *)
From Coq Require Import FMapPositive.
From ChiaV.Base Require Import Bytes.
From ChiaV.Clvm Require Import Sexp.
From ChiaV.Gen Require Import ChainConsts.
Open Scope N_scope.

Record istate := {
  i_atoms : PositiveMap.t N;       (* atom content -> id *)
  i_pairs : PositiveMap.t N;       (* (left id, right id) -> id *)
  i_next : N;
  i_atom_bytes : N; i_atom_count : N; i_pair_count : N
}.

Definition istate0 : istate :=
  {| i_atoms := PositiveMap.empty N; i_pairs := PositiveMap.empty N; i_next := 0;
     i_atom_bytes := 0; i_atom_count := 0; i_pair_count := 0 |}.

(* injective key of a byte string: the marker byte 01 keeps leading zeros and the length *)
Definition atom_key (b : bytes) : positive := N.succ_pos (be2n (x01 :: b)).
Definition pair_key (l r : N) : positive := N.succ_pos (l * 2 ^ 64 + r).

Fixpoint intern (t : sexp) (s : istate) : N * istate :=
  match t with
  | Atom b =>
      let k := atom_key b in
      match PositiveMap.find k (i_atoms s) with
      | Some id => (id, s)
      | None =>
          (i_next s,
           {| i_atoms := PositiveMap.add k (i_next s) (i_atoms s); i_pairs := i_pairs s; i_next := i_next s + 1;
              i_atom_bytes := i_atom_bytes s + nlen b; i_atom_count := i_atom_count s + 1;
              i_pair_count := i_pair_count s |})
      end
  | Pair l r =>
      let '(il, s1) := intern l s in
      let '(ir, s2) := intern r s1 in
      let k := pair_key il ir in
      match PositiveMap.find k (i_pairs s2) with
      | Some id => (id, s2)
      | None =>
          (i_next s2,
           {| i_atoms := i_atoms s2; i_pairs := PositiveMap.add k (i_next s2) (i_pairs s2); i_next := i_next s2 + 1;
              i_atom_bytes := i_atom_bytes s2; i_atom_count := i_atom_count s2;
              i_pair_count := i_pair_count s2 + 1 |})
      end
  end.

Definition interned_vbytes (t : sexp) : N :=
  let s := snd (intern t istate0) in
  i_atom_bytes s + INTERN_ATOM_WEIGHT * i_atom_count s + INTERN_PAIR_WEIGHT * i_pair_count s.
