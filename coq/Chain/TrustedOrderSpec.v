(* Unit gen, C09 in-order rebuild: statement-level definitions for the bridge between this unit's mirror of
   run_block_generator2 (Chain/Generator.v) and unit bundle's (Bundle/BlockPath.v).  No proofs here; the proofs are
   in TrustedOrderProofs.v.  Unit bundle's files are only read (Require without Import, qualified names). *)
From Coq Require Import Lia ZArith Permutation.
From ChiaV.Base Require Import Bytes.
From ChiaV.Clvm Require Import Sexp Ints TreeHash.
From ChiaV.Gen Require Import Opcodes Ladders ChainConsts.
From ChiaV.Cond Require Import Model.
From ChiaV.Chain Require Import Backref Rom Generator GeneratorSpec Trusted TrustedSpec.
From ChiaV.Bundle Require SolutionGen SpendBundle AgreeProofs.
Open Scope N_scope.

(* C08's oracle hypotheses (unit bundle), as definitions *)
Definition run_intrinsic_hyp (run : sexp -> sexp -> N -> res (N * sexp)) : Prop :=
  forall p s, (exists c r, forall b, run p s b = (if b <? c then Err CostExceeded else Ok (c, r))) \/
              (forall b, exists e, run p s b = Err e).
Definition run_quote_exact_hyp (run : sexp -> sexp -> N -> res (N * sexp)) : Prop :=
  forall x args budget, run (Pair (Atom [x01]) x) args budget = if budget <? 20 then Err CostExceeded else Ok (20, x).

Definition bflags_of (gf : gflags) : SpendBundle.bflags :=
  {| SpendBundle.bf_cond := g_cond gf; SpendBundle.bf_interned := g_interned gf; SpendBundle.bf_simple := g_simple gf |}.

(* the two mirrors of run_block_generator2 agree on plainly serialized quoted generators without block references,
   outside INTERNED_GENERATOR mode: same verdict, and on acceptance the same result up to Bundle's erasure (the two
   mempool-only spend flag bits), with equal cost and execution cost *)
Definition bridged (mine theirs : res gresult) : Prop :=
  match mine, theirs with
  | Ok (b1, sp1, p1), Ok (b2, sp2, p2) =>
      AgreeProofs.erase_b b1 = AgreeProofs.erase_b b2 /\ b_cost b1 = b_cost b2 /\ b_exec_cost b1 = b_exec_cost b2 /\
      map AgreeProofs.erase_sp sp1 = map AgreeProofs.erase_sp sp2 /\ p1 = p2
  | Err _, Err _ => True
  | _, _ => False
  end.

(* a recovered coin spend as unit bundle's CoinSpend record *)
Definition conv (c : Trusted.coin_spend) : SolutionGen.cspend :=
  {| SolutionGen.cs_parent := co_parent (Trusted.cs_coin c); SolutionGen.cs_ph := co_ph (Trusted.cs_coin c);
     SolutionGen.cs_amount := co_amount (Trusted.cs_coin c);
     SolutionGen.cs_puzzle := Trusted.cs_puzzle c; SolutionGen.cs_solution := Trusted.cs_solution c |}.

(* the two mempool-only flag bits of a reported spend (ELIGIBLE_FOR_FF, ELIGIBLE_FOR_DEDUP) erased *)
Definition erase_flags (s : spend) : spend := sp_set_flags s false false (sp_has_relative s).

(* what the generator rebuilt from the coin spends IN ORDER reports (sF) against a result with the original spend order (sR) *)
Definition reversed_summary (sF sR : gresult) : Prop :=
  let '(bF, spF, pF) := sF in let '(bR, spR, pR) := sR in
  b_cost bF = b_cost bR /\ b_exec_cost bF = b_exec_cost bR /\ b_cond_cost bF = b_cond_cost bR /\
  b_removal bF = b_removal bR /\ b_addition bF = b_addition bR /\ b_reserve_fee bF = b_reserve_fee bR /\
  b_height_absolute bF = b_height_absolute bR /\ b_seconds_absolute bF = b_seconds_absolute bR /\
  b_before_height_absolute bF = b_before_height_absolute bR /\ b_before_seconds_absolute bF = b_before_seconds_absolute bR /\
  map erase_flags spF = rev (map erase_flags spR) /\
  Permutation (b_agg_sig_unsafe bF) (b_agg_sig_unsafe bR) /\ Permutation pF pR.

(* sF (from the in-order rebuild) against the ORIGINAL accepted result *)
Definition reversed_of_original (sF orig : gresult) : Prop :=
  let '(bF, spF, pF) := sF in let '(b, spends, pairs) := orig in
  b_cond_cost bF = b_cond_cost b /\ b_removal bF = b_removal b /\ b_addition bF = b_addition b /\
  b_reserve_fee bF = b_reserve_fee b /\
  b_height_absolute bF = b_height_absolute b /\ b_seconds_absolute bF = b_seconds_absolute b /\
  b_before_height_absolute bF = b_before_height_absolute b /\ b_before_seconds_absolute bF = b_before_seconds_absolute b /\
  map erase_flags (map erase_s spF) = rev (map erase_flags (map erase_s spends)) /\
  Permutation (b_agg_sig_unsafe bF) (b_agg_sig_unsafe b) /\ Permutation pF pairs.

(* serialized size difference between the rebuilt generator and its quoted spend list, charged per byte, plus the
   cost of evaluating the quote: the budget margin that unit bundle's agreement theorem needs *)
Definition REBUILD_OVERHEAD : N := 20 + 2 * COST_PER_BYTE.

(* witness for the in-order example: two spends (parents 0x11*32 and 0x12*32, amount 10) creating one coin each *)
Definition TWO_SPEND_GENERATOR : bytes :=
  let puzzle ph amt := Pair (Atom [x01]) (Pair (Pair (Atom [x33]) (Pair (Atom (repeat ph 32)) (Pair (Atom [amt]) nil))) nil) in
  let spend parent ph amt := Pair (Atom (repeat parent 32)) (Pair (puzzle ph amt) (Pair (Atom [x0a]) (Pair nil nil))) in
  ser' (Pair (Atom [x01]) (Pair (Pair (spend x11 x22 x05) (Pair (spend x12 x23 x07) nil)) nil)).
