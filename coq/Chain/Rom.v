(* Chain/Rom.v — Gallina reading of the generator ROM
   chia-puzzles 0.20.1 puzzles/consensus_puzzles/rom_bootstrap_generator.clsp

     (mod (block_decompresser_program (historical_blocks_tree))
       (defconstant local_deserialize_mod ...)
       (defun sha256tree (TREE) (if (l TREE) (sha256 2 (sha256tree (f TREE)) (sha256tree (r TREE))) (sha256 1 TREE)))
       (defun process_coin_spend ((parent puzzle amount solution . spend_level_extras))
         (c parent (c (sha256tree puzzle) (c amount (c (a puzzle solution) spend_level_extras)))))
       (defun recurse (coin_spends)
         (if coin_spends (c (process_coin_spend (f coin_spends)) (recurse (r coin_spends))) 0))
       (defun process-decompressor ((coin_spends . block-level-extras))
         (c (recurse coin_spends) block-level-extras))
       (process-decompressor (a block_decompresser_program (list local_deserialize_mod historical_blocks_tree))))

   CLVM evaluation of the generator and of the puzzles is delegated to the oracle `run`
   (no CLVM interpreter is formalised).  The reading returns the output tree and the SUM of the
   costs of the delegated evaluations (a lower bound of the ROM's own cost).
   Definitions only. *)
From ChiaV.Base Require Import Bytes.
From ChiaV.Clvm Require Import Sexp.
From ChiaV.Gen Require Import ChainConsts.
From ChiaV.Cond Require Import Model.
From ChiaV.Chain Require Import Backref.
Open Scope N_scope.

(* clvmr Cost::MAX: what a budget of 0 means to run_program *)
Definition COST_MAX : N := 2 ^ 64 - 1.

(* the ROM program and the deserializer program, as trees *)
Definition sexp_of_bytes (b : bytes) : sexp := match node_from_bytes_f b with Some t => t | None => nil end.
Definition ROM : sexp := sexp_of_bytes ROM_BOOTSTRAP_GENERATOR.
Definition DESERIALIZER : sexp := sexp_of_bytes CHIALISP_DESERIALISATION.

(* `local_deserialize_mod` as it sits in the compiled ROM: the constant at environment path 8,
   i.e. (f (f (f E))) with E = (f (r (r ROM))) = (q . constants-tree) *)
Definition rom_local_deserialize_mod : sexp :=
  match ROM with
  | Pair _ (Pair _ (Pair (Pair _ (Pair (Pair _ (Pair (Pair d _) _)) _)) _)) => d
  | _ => nil
  end.

(* the environment the consensus code passes to the ROM: (program (refs)) *)
Definition rom_args (program : sexp) (refs : list bytes) : sexp :=
  Pair program (Pair (Pair (list_to_sexp (map Atom refs)) nil) nil).

(* the arguments the ROM passes to the generator: (list local_deserialize_mod historical_blocks_tree) *)
Definition generator_args_full (refs : list bytes) : sexp :=
  Pair DESERIALIZER (Pair (list_to_sexp (map Atom refs)) nil).

Section Rom.
  Variable run : sexp -> sexp -> N -> res (N * sexp).
  Variable H : bytes -> bytes.

  Fixpoint sha256tree (t : sexp) : bytes :=
    match t with
    | Pair l r => H (x02 :: sha256tree l ++ sha256tree r)
    | Atom b => H (x01 :: b)
    end.

  (* destructuring of ((parent puzzle amount solution . spend_level_extras)): environment paths
     9, 21, 45, 93, 125 of the compiled function; a path into an atom raises *)
  Definition rom_destructure (spend : sexp) : res (sexp * sexp * sexp * sexp * sexp) :=
    match spend with
    | Pair parent (Pair puzzle (Pair amount (Pair solution extras))) => Ok (parent, puzzle, amount, solution, extras)
    | _ => Err GeneratorRuntimeError
    end.

  Definition process_coin_spend (spend : sexp) : res (N * sexp) :=
    '(parent, puzzle, amount, solution, extras) <- rom_destructure spend ;;
    '(c, conds) <- run puzzle solution COST_MAX ;;
    Ok (c, Pair parent (Pair (Atom (sha256tree puzzle)) (Pair amount (Pair conds extras)))).

  (* (if coin_spends ... 0): nil ends the list; a non-nil atom is true and (f atom) raises *)
  Fixpoint recurse (coin_spends : sexp) : res (N * sexp) :=
    match coin_spends with
    | Atom [] => Ok (0, nil)
    | Atom _ => Err GeneratorRuntimeError
    | Pair sp rest =>
        '(c1, s) <- process_coin_spend sp ;;
        '(c2, r) <- recurse rest ;;
        Ok (c1 + c2, Pair s r)
    end.

  Definition process_decompressor (out : sexp) : res (N * sexp) :=
    match out with
    | Pair coin_spends extras => '(c, l) <- recurse coin_spends ;; Ok (c, Pair l extras)
    | Atom _ => Err GeneratorRuntimeError
    end.

  Definition rom_eval (program : sexp) (refs : list bytes) : res (N * sexp) :=
    '(c0, out) <- run program (generator_args_full refs) COST_MAX ;;
    '(c1, res) <- process_decompressor out ;;
    Ok (c0 + c1, res).
End Rom.
