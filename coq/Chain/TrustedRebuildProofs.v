(* Chain/TrustedRebuildProofs.v — C09, the remaining helper clauses: the recovered coin spends rebuild
   (solution_generator) a generator that full validation accepts with the same conditions; SpendBundle::additions on
   the recovered coin spends lists the created coins; get_coinspends_with_conditions_for_trusted_block. *)
From Coq Require Import Lia ZArith.
From ChiaV.Base Require Import Bytes Sha256.
From ChiaV.Clvm Require Import Sexp Ints IntsProofs WidthProofs LadderProofs TreeHash.
From ChiaV.Gen Require Import Opcodes Ladders ChainConsts.
From ChiaV.Cond Require Import Model.
From ChiaV.Chain Require Import Backref BackrefProofs Rom Generator GeneratorSpec CondBudgetProofs GenToy GeneratorProofs Trusted TrustedSpec TrustedProofs.
Open Scope N_scope.


Lemma program_of_fits t : fits t -> node_from_bytes_backrefs (program_of t) = Some t.
Proof.
  intros (b & S & L). unfold program_of. rewrite S.
  assert (2000000 <? nlen b = false) as -> by (apply N.ltb_ge; exact L).
  exact (backrefs_ser t b S).
Qed.

Lemma parse_amount_atom am e amt : parse_amount am e = Ok amt -> am = Atom (canon_n amt).
Proof.
  unfold parse_amount, sanitize_uint_node. destruct am as [ab|]; cbn; [|discriminate].
  destruct (sanitize_uint ab 8) eqn:SU; cbn; try discriminate. intro E; inversion E; subst.
  apply sanitize_uint_ok_iff in SU. destruct SU as [-> _]. reflexivity.
Qed.

Lemma spend_item_tuple H sp t : matches H (snd (removal_of sp)) t -> fits_tuple t ->
  spend_item (coin_spend_of_tuple sp t) = Some (tuple_item t).
Proof.
  destruct t as [[[p pz] am] sol]. intros (P1 & P2 & P3) (F1 & F2).
  unfold spend_item, coin_spend_of_tuple. cbn [cs_solution cs_puzzle cs_coin].
  rewrite (program_of_fits _ F1), (program_of_fits _ F2).
  cbn [removal_of snd co_parent co_amount] in *. subst p. rewrite (parse_amount_atom _ _ _ P2).
  reflexivity.
Qed.

Lemma prepend_app a : forall b acc,
  prepend_spends (a ++ b) acc = match prepend_spends a acc with Some acc' => prepend_spends b acc' | None => None end.
Proof.
  induction a as [|x a IH]; intros b acc; cbn [app prepend_spends]; [reflexivity|].
  destruct (spend_item x); [apply IH|reflexivity].
Qed.

Lemma prepend_rev l : forall items, Forall2 (fun c it => spend_item c = Some it) l items ->
  forall acc, prepend_spends (rev l) acc = Some (fold_right Pair acc items).
Proof.
  induction l as [|x l IH]; intros items F acc; inversion F as [|? it ? its Fx Fl]; subst; [reflexivity|].
  cbn [rev]. rewrite prepend_app, (IH _ Fl). cbn [prepend_spends]. rewrite Fx. reflexivity.
Qed.

Section L.
  Variable run : sexp -> sexp -> N -> res (N * sexp).
  Variable valid_key : bytes -> bool.
  Variable H : bytes -> bytes.
  Variable K : consts.
  Variable fl : cflags.
  Hypothesis run_exact : run_exact_hyp run.

  Notation psp := (process_single_spend valid_key H K fl VEmpty).

  Lemma psp_two ret ret' st p ph am conds m m' c r s l :
    erase_b ret' = erase_b ret ->
    psp ret st p ph am conds m c = Ok (r, s, l) ->
    match psp ret' st p ph am conds m' c return Prop with
    | Ok (r', s', l') => erase_b r' = erase_b r /\ s' = s
    | Err e => e = CostExceeded
    end.
  Proof.
    intros ER A.
    pose proof (psp_T valid_key K fl H ret st p ph am conds m c m') as PA. rewrite A in PA. destruct PA as [_ PA].
    pose proof (psp_T valid_key K fl H ret' st p ph am conds m' c m) as PB.
    rewrite ER in PB. replace (m' + m) with (m + m') in PB by lia.
    destruct (psp ret' st p ph am conds m' c) as [[[r' s'] l']|e].
    - destruct PB as [_ PB]. rewrite PA in PB. inversion PB. split; congruence.
    - destruct e; try reflexivity; (assert (X : forall x y : ecode, x = y -> x = y) by auto);
        match type of PB with ?e <> CostExceeded -> _ => assert (NE : e <> CostExceeded) by discriminate;
          rewrite PA in PB; specialize (PB NE); discriminate PB end.
  Qed.

  Lemma run_program_two p a m m' c r : run_program run p a m = Ok (c, r) ->
    run_program run p a m' = Ok (c, r) \/ run_program run p a m' = Err CostExceeded.
  Proof.
    unfold run_program. intro E. rewrite (run_exact _ _ _ _ _ E). destruct (c <=? _); [left|right]; reflexivity.
  Qed.

  Lemma nloop_two : forall iter ret st m ex sl r s l e,
    native_loop run valid_key H K iter ret st m ex sl fl = Ok (r, s, l, e, Atom []) ->
    forall ret' m' ex', erase_b ret' = erase_b ret ->
    match native_loop run valid_key H K (rebuilt_spends iter) ret' st m' ex' sl fl return Prop with
    | Ok (r', s', l', e', term') => term' = Atom [] /\ erase_b r' = erase_b r /\ s' = s
    | Err e0 => e0 = CostExceeded
    end.
  Proof.
    induction iter as [b|spend _ tl IH]; intros ret st m ex sl r s l e E ret' m' ex' ER.
    - cbn in E. inversion E; subst. cbn. repeat split. exact ER.
    - cbn [native_loop] in E.
      assert (E' : ('(parent_id, puzzle, amount, solution, _) <- extract_5 spend ;;
                    '(clvm_cost, conditions) <- run_program run puzzle solution m ;;
                    cost_left1 <- subtract_cost m clvm_cost ;;
                    '(ret1, state1, cost_left2) <-
                      process_single_spend valid_key H K fl VEmpty ret st parent_id (Atom (th H puzzle)) amount conditions
                                           cost_left1 clvm_cost ;;
                    native_loop run valid_key H K tl ret1 state1 cost_left2 (ex + clvm_cost) (option_map N.pred sl) fl)
                   = Ok (r, s, l, e, Atom []) /\ sl <> Some 0).
      { destruct sl as [[|]|]; [discriminate E|split; [exact E|discriminate]|split; [exact E|discriminate]]. }
      clear E. destruct E' as [E' SL].
      destruct spend as [|p [|pz [|am [|sol ext]]]]; try discriminate E'.
      cbn [extract_5 bind] in E'.
      destruct (run_program run pz sol m) as [[c conds]|] eqn:RP; cbn [bind] in E'; [|discriminate E'].
      destruct (subtract_cost m c) as [m1|] eqn:SC; cbn [bind] in E'; [|discriminate E'].
      destruct (psp ret st p (Atom (th H pz)) am conds m1 c) as [[[r1 s1] l1]|] eqn:PSP; cbn [bind] in E'; [|discriminate E'].
      unfold rebuilt_spends. cbn [spend_tuples map fold_right tuple_item]. fold (rebuilt_spends tl).
      cbn [native_loop].
      assert (G : forall X : res (bundle * pstate * N * N * sexp),
                match sl with Some 0 => Err TooManySpends | _ => X end = X).
      { intro X. destruct sl as [[|]|]; [congruence|reflexivity|reflexivity]. }
      rewrite G. cbn [extract_5 bind].
      destruct (run_program_two pz sol m m' c conds RP) as [RP'|RP']; rewrite RP'; cbn [bind]; [|reflexivity].
      unfold subtract_cost. destruct (m' <? c); cbn [bind]; [reflexivity|].
      pose proof (psp_two ret ret' st p (Atom (th H pz)) am conds m1 (m' - c) c r1 s1 l1 ER PSP) as PT.
      destruct (psp ret' st p (Atom (th H pz)) am conds (m' - c) c) as [[[r1' s1'] l1']|e1]; cbn [bind]; [|exact PT].
      destruct PT as [ER1 ->].
      exact (IH _ _ _ _ _ _ _ _ _ E' r1' l1' (ex' + c) ER1).
  Qed.
End L.

Lemma ser_quote_prefix X b : ser (Pair (Atom [x01]) X) = Some b -> exists tl, b = xff :: x01 :: tl.
Proof.
  cbn [ser]. change (ser_atom [x01]) with (Some [x01]). destruct (ser X) as [y|]; [|discriminate].
  intro E; inversion E. eexists; reflexivity.
Qed.

Lemma prepass_rebuilt L : prepass (fold_right Pair nil (map tuple_item L)) = Ok tt.
Proof. induction L as [|[[[p pz] am] sol] L IH]; [reflexivity|]. cbn. exact IH. Qed.

Lemma erase_set_costs_eq a b x y : erase_b a = erase_b b -> erase_b (set_costs a x y) = erase_b (set_costs b x y).
Proof. unfold erase_b, set_costs. intro E. inversion E. cbn. congruence. Qed.

Section Top.
  Variable run : sexp -> sexp -> N -> res (N * sexp).
  Variable valid_key : bytes -> bool.
  Variable sig_ok : list (bytes * bytes) -> bool.
  Variable H : bytes -> bytes.
  Variable K : consts.
  Hypothesis run_exact : run_exact_hyp run.
  Hypothesis run_quote : run_quote_hyp run.

  Notation native := (run_block_generator2 run valid_key sig_ok H K).

  Lemma run_quote_any x env m :
    run_program run (Pair (Atom [x01]) x) env m = Ok (20, x) \/ run_program run (Pair (Atom [x01]) x) env m = Err CostExceeded.
  Proof.
    unfold run_program.
    assert (E : run (Pair (Atom [x01]) x) env COST_MAX = Ok (20, x)) by (apply run_quote; unfold COST_MAX; lia).
    rewrite (run_exact _ _ _ _ _ E). destruct (20 <=? _); [left|right]; reflexivity.
  Qed.

  Theorem rebuild_correct program refs max_cost gf b spends pairs :
    native program refs max_cost gf = Ok (b, spends, pairs) ->
    max_cost <= MAX_BLOCK_COST_CLVM ->
    exists out iter cs,
      native_generator_output run program refs max_cost gf = Ok out /\ first out = Ok iter /\
      get_coinspends_for_trusted_block run H program refs gf = Ok cs /\
      (Forall fits_tuple (spend_tuples iter) ->
       build_generator (rev cs) = Some (rebuilt_generator iter) /\
       forall program' max_cost',
         solution_generator (rev cs) = Some program' ->
         match native program' [] max_cost' gf return Prop with
         | Ok s' => neutral s' = neutral (b, spends, pairs)
         | Err e => e = CostExceeded
         end).
  Proof.
    intros E LM.
    destruct (coinspends_correct run valid_key sig_ok H K run_exact _ _ _ _ _ _ _ E LM) as (out & iter & GO & FO & LEN & CS).
    eexists out, iter, _. split; [exact GO|]. split; [exact FO|]. split; [exact CS|].
    (* take the accepted run apart *)
    unfold run_block_generator2 in E. unfold native_generator_output in GO.
    destruct (check_generator_quote program gf) as [[]|]; cbn [bind] in E; [|discriminate E].
    destruct (deser_program program) as [prog|]; cbn [bind] in *; [|discriminate E].
    destruct (subtract_cost max_cost (base_cost program prog gf)) as [clN|]; cbn [bind] in *; [|discriminate E].
    destruct (check_generator_node prog gf) as [[]|]; cbn [bind] in E; [|discriminate E].
    destruct (setup_generator_args refs gf) as [args|]; cbn [bind] in *; [|discriminate E].
    destruct (run_program run prog args clN) as [[c0 out0]|]; cbn [bind] in *; [|discriminate E].
    inversion GO; subst out0; clear GO.
    destruct (subtract_cost clN c0) as [cl1|]; cbn [bind] in E; [|discriminate E].
    rewrite FO in E. cbn [bind] in E.
    destruct (prepass iter) as [[]|]; cbn [bind] in E; [|discriminate E].
    set (sl := if f_limit_spends (g_cond gf) then Some MAX_SPENDS_PER_BLOCK else None) in *.
    destruct (native_loop run valid_key H K iter empty_bundle empty_state cl1 c0 sl (g_cond gf))
      as [[[[[ret state] cl2] exec] term]|] eqn:NLp; cbn [bind] in E; [|discriminate E].
    destruct term as [[|]|]; try discriminate E.
    destruct (validate_conditions H ret (fast_rev (b_spends_rev ret)) state) as [[]|] eqn:VC; cbn [bind] in E; [|discriminate E].
    destruct (validate_signature sig_ok (g_cond gf) (fast_rev (s_pkm_pairs_rev state))) as [[]|] eqn:VS; cbn [bind] in E; [|discriminate E].
    inversion E; subst b spends pairs; clear E.
    intro FITS.
    destruct (tuples_spends run valid_key H K (g_cond gf) _ _ _ _ _ _ _ _ _ _ _ NLp) as (news & BS & FA).
    cbn [empty_bundle b_spends_rev] in BS. rewrite app_nil_r in BS.
    assert (SPN : fast_rev (b_spends_rev ret) = news) by (rewrite BS, fast_rev_rev, rev_involutive; reflexivity).
    rewrite SPN in *.
    (* the generator built from the recovered coin spends *)
    assert (BG : build_generator (rev (map (fun st => coin_spend_of_tuple (fst st) (snd st)) (combine news (spend_tuples iter))))
                 = Some (rebuilt_generator iter)).
    { unfold build_generator, rebuilt_generator, rebuilt_spends.
      rewrite (prepend_rev _ (map tuple_item (spend_tuples iter))); [reflexivity|].
      clear - FA FITS. revert FITS. induction FA as [|sp t sps ts M FA IH]; intro FITS; cbn; [constructor|].
      inversion FITS; subst. constructor; [|apply IH; assumption].
      cbn [fst snd]. exact (spend_item_tuple H sp t M ltac:(assumption)). }
    split; [exact BG|].
    intros program' max_cost' SG. unfold solution_generator in SG. rewrite BG in SG.
    destruct (ser (rebuilt_generator iter)) as [pb|] eqn:SER; [|discriminate SG].
    destruct (2000000 <? nlen pb); [discriminate SG|]. inversion SG; subst pb; clear SG.
    (* run the native path on it *)
    unfold run_block_generator2.
    destruct (ser_quote_prefix _ _ SER) as [tl0 ->].
    assert (CQ : check_generator_quote (xff :: x01 :: tl0) gf = Ok tt).
    { unfold check_generator_quote. destruct (negb (g_simple gf)); reflexivity. }
    rewrite CQ. cbn [bind]. unfold deser_program. rewrite (backrefs_ser _ _ SER). cbn [bind].
    unfold subtract_cost at 1. destruct (max_cost' <? _); cbn [bind]; [reflexivity|].
    assert (CN : check_generator_node (rebuilt_generator iter) gf = Ok tt).
    { unfold check_generator_node, rebuilt_generator. destruct (negb (g_simple gf)); reflexivity. }
    rewrite CN. cbn [bind].
    assert (SA : exists args', setup_generator_args [] gf = Ok args').
    { unfold setup_generator_args. destruct (g_simple gf); eexists; reflexivity. }
    destruct SA as [args' ->]. cbn [bind].
    unfold rebuilt_generator at 1.
    match goal with |- context [run_program run _ args' ?m] =>
      destruct (run_quote_any (Pair (rebuilt_spends iter) nil) args' m) as [RQ|RQ]; rewrite RQ; cbn [bind]; [|reflexivity] end.
    unfold subtract_cost at 1. match goal with |- context [if ?c then Err CostExceeded else _] => destruct c end; cbn [bind]; [reflexivity|].
    cbn [first bind]. unfold rebuilt_spends at 1. rewrite prepass_rebuilt. cbn [bind]. fold (rebuilt_spends iter). fold sl.
    match goal with |- context [native_loop run valid_key H K (rebuilt_spends iter) empty_bundle empty_state ?m' ?e' sl (g_cond gf)] =>
      pose proof (nloop_two run valid_key H K (g_cond gf) run_exact iter _ _ _ _ _ _ _ _ _ NLp empty_bundle m' e' eq_refl) as NT;
      destruct (native_loop run valid_key H K (rebuilt_spends iter) empty_bundle empty_state m' e' sl (g_cond gf))
        as [[[[[r' s'] l'] e2] term']|e0]; cbn [bind]; [|exact NT] end.
    destruct NT as (-> & ER & ->).
    assert (VC' : validate_conditions H r' (fast_rev (b_spends_rev r')) state = Ok tt).
    { rewrite <- validate_conditions_erase, map_fast_rev.
      change (map erase_s (b_spends_rev r')) with (b_spends_rev (erase_b r')). rewrite ER.
      cbn [erase_b b_spends_rev]. rewrite <- map_fast_rev, SPN.
      rewrite validate_conditions_erase. exact VC. }
    rewrite VC'. cbn [bind]. rewrite VS. cbn [bind].
    unfold neutral.
    assert (A1 : erase_b (set_costs (set_costs r' (max_cost' - l') e2) 0 0) =
                 erase_b (set_costs (set_costs ret (max_cost - cl2) exec) 0 0)).
    { change (set_costs (set_costs r' (max_cost' - l') e2) 0 0) with (set_costs r' 0 0).
      change (set_costs (set_costs ret (max_cost - cl2) exec) 0 0) with (set_costs ret 0 0).
      apply erase_set_costs_eq. exact ER. }
    assert (A2 : map erase_s (fast_rev (b_spends_rev r')) = map erase_s news).
    { apply (f_equal b_spends_rev) in ER. cbn [erase_b b_spends_rev] in ER.
      rewrite map_fast_rev, ER, <- map_fast_rev, SPN. reflexivity. }
    rewrite A1, A2. reflexivity.
  Qed.
End Top.


(* every condition of the list has an atom as operator *)
Fixpoint ops_atoms (conds : sexp) : Prop :=
  match conds with
  | Pair (Pair (Atom _) _) tl => ops_atoms tl
  | Pair _ _ => False
  | Atom _ => True
  end.

Lemma program_of_fits_plain t : fits t -> node_from_bytes_f (program_of t) = Some t.
Proof.
  intros (b & S & L). unfold program_of. rewrite S.
  assert (2000000 <? nlen b = false) as -> by (apply N.ltb_ge; exact L).
  exact (plain_f_ser t b S).
Qed.

Section S.
  Variable valid_key : bytes -> bool.
  Variable K : consts.
  Variable fl : cflags.
  Hypothesis NU : f_no_unknown fl = true.

  Lemma cond_op_atom c st st' : process_condition valid_key K fl VEmpty c st = Ok st' ->
    exists opb c1, c = Pair (Atom opb) c1.
  Proof.
    unfold process_condition. destruct c as [|f c1]; cbn [first bind]; [intro E; discriminate E|].
    destruct f as [opb|]; [eauto|]. cbn [parse_opcode]. rewrite NU. intro E; discriminate E.
  Qed.

  Lemma loop_ops conds : forall st st', conditions_loop valid_key K fl VEmpty conds st = Ok st' -> ops_atoms conds.
  Proof.
    induction conds as [b|c _ nxt IH]; intros st st' E; [exact I|]. cbn [conditions_loop] in E.
    destruct (process_condition valid_key K fl VEmpty c st) as [st1|] eqn:PC; cbn [bind] in E; [|discriminate E].
    destruct (cond_op_atom _ _ _ PC) as (opb & c1 & ->). cbn [ops_atoms]. exact (IH _ _ E).
  Qed.

  Variable H : bytes -> bytes.
  Lemma psp_ops ret st p ph am conds m c r s l :
    process_single_spend valid_key H K fl VEmpty ret st p ph am conds m c = Ok (r, s, l) -> ops_atoms conds.
  Proof.
    unfold process_single_spend.
    destruct (sanitize_hash p 32 InvalidParentId); cbn [bind]; [|intro E; discriminate E].
    destruct (sanitize_hash ph 32 InvalidPuzzleHash); cbn [bind]; [|intro E; discriminate E].
    destruct (parse_amount am InvalidCoinAmount); cbn [bind]; [|intro E; discriminate E].
    destruct (atom_of am InvalidCoinAmount); cbn [bind]; [|intro E; discriminate E].
    destruct (lookup_idx _ _); [intro E; discriminate E|].
    match goal with |- context [if f_cost_conds fl then charge ?s0 SPEND_COST else Ok ?s0] => set (st0 := s0) end.
    destruct (if f_cost_conds fl then charge st0 SPEND_COST else Ok st0) as [st1|]; cbn [bind]; [|intro E; discriminate E].
    destruct (conditions_loop valid_key K fl VEmpty conds (with_spend st1 (l_spend st1))) as [st2|] eqn:CL; cbn [bind];
      [|intro E; discriminate E].
    intros _. exact (loop_ops _ _ _ CL).
  Qed.
End S.

(* the scan of SpendBundle::additions follows the scan of additions_and_removals on lists whose operators are atoms *)
Lemma sb_create_coin_ar ph amt pht amount hint :
  bytes32_of pht = Some ph -> parse_amount amount InvalidCoinAmount = Ok amt ->
  sb_create_coin (Pair pht (Pair amount hint)) = Some (ph, amt).
Proof.
  intros B PA. unfold sb_create_coin. rewrite B.
  pose proof PA as PA'. apply parse_amount_atom in PA'. subst amount.
  assert (L : amt < 256 ^ N.of_nat 8).
  { unfold parse_amount, sanitize_uint_node in PA. cbn in PA. destruct (sanitize_uint (canon_n amt) 8) eqn:SU; cbn in PA; try discriminate PA.
    inversion PA; subst. apply sanitize_uint_ok_iff in SU. tauto. }
  rewrite (decode_number_unsigned 8 amt L). rewrite be2n_n2be by exact L. reflexivity.
Qed.

Lemma sb_ar conds : ops_atoms conds -> forall sid accA outA accS cl,
  ar_conditions conds sid accA = Ok outA -> map fst accA = accS ->
  match sb_conditions conds sid cl accS return Prop with
  | Ok (out, cl') => out = map fst outA /\ cl' <= cl
  | Err e => e = CostExceeded
  end.
Proof.
  induction conds as [b|c _ nxt IH]; intros OA sid accA outA accS cl AR MA.
  - cbn in *. destruct b; [|discriminate AR]. inversion AR; subst. split; [reflexivity|lia].
  - cbn [ops_atoms] in OA. destruct c as [|[opb|] c1]; try contradiction.
    cbn [ar_conditions] in AR. destruct (ar_condition (Pair (Atom opb) c1)) as [r|] eqn:AC; cbn [bind] in AR; [|discriminate AR].
    cbn [sb_conditions]. unfold ar_condition in AC. cbn [first rest bind] in AC.
    destruct (bytes_eqb opb [n2b CREATE_COIN]) eqn:BE; cbn [negb] in AC.
    + apply bytes_eqb_eq in BE. subst opb.
      destruct c1 as [|pht [|amount hint]]; try discriminate AC.
      destruct (bytes32_of pht) as [ph|] eqn:B32; [|discriminate AC].
      destruct (parse_amount amount InvalidCoinAmount) as [amt|] eqn:PA; cbn [bind] in AC; [|discriminate AC].
      inversion AC; subst r; clear AC.
      change (b2n (n2b CREATE_COIN) =? SB_CREATE_COIN) with true. cbv iota.
      rewrite (sb_create_coin_ar ph amt pht amount hint B32 PA).
      destruct (cl <? SB_CREATE_COIN_COST) eqn:LT; [reflexivity|]. apply N.ltb_ge in LT.
      specialize (IH OA sid _ outA ({| co_parent := sid; co_ph := ph; co_amount := amt |} :: accS) (cl - SB_CREATE_COIN_COST) AR).
      cbn [ar_push map fst] in IH. rewrite MA in IH. specialize (IH eq_refl).
      destruct (sb_conditions nxt sid (cl - SB_CREATE_COIN_COST) _) as [[out cl']|]; [|exact IH].
      destruct IH. split; [assumption|lia].
    + inversion AC; subst r; clear AC. cbn [ar_push] in AR.
      assert (G : sb_conditions (Pair (Pair (Atom opb) c1) nxt) sid cl accS = sb_conditions nxt sid cl accS).
      { cbn [sb_conditions]. destruct opb as [|b0 [|b1 tl]]; try reflexivity.
        destruct (b2n b0 =? SB_CREATE_COIN) eqn:X; [|reflexivity]. exfalso.
        apply N.eqb_eq in X. assert (b0 = n2b CREATE_COIN) by (apply b2n_inj; rewrite X; reflexivity). subst b0.
        rewrite bytes_eqb_refl in BE. discriminate BE. }
      cbn [sb_conditions] in G. rewrite G. exact (IH OA sid accA outA accS cl AR MA).
Qed.

Section SB.
  Variable run : sexp -> sexp -> N -> res (N * sexp).
  Variable valid_key : bytes -> bool.
  Variable H : bytes -> bytes.
  Variable K : consts.
  Variable fl : cflags.
  Hypothesis run_exact : run_exact_hyp run.
  Hypothesis NU : f_no_unknown fl = true.

  Definition cs_of (st : spend * (sexp * sexp * sexp * sexp)) : coin_spend := coin_spend_of_tuple (fst st) (snd st).

  Lemma sb_native : forall iter ret st m ex sl r s l e term,
    native_loop run valid_key H K iter ret st m ex sl fl = Ok (r, s, l, e, term) ->
    Forall fits_tuple (spend_tuples iter) ->
    exists news,
      b_spends_rev r = rev news ++ b_spends_rev ret /\ length news = length (spend_tuples iter) /\
      forall cl acc,
        match sb_loop run H (map cs_of (combine news (spend_tuples iter))) cl acc return Prop with
        | Ok out => out = rev acc ++ map fst (concat (map expected_additions news))
        | Err e0 => e0 = CostExceeded
        end.
  Proof.
    induction iter as [b|spend _ tl IH]; intros ret st m ex sl r s l e term E FITS.
    - cbn in E. inversion E; subst. exists []. cbn. repeat split. intros cl acc. rewrite fast_rev_rev, app_nil_r. reflexivity.
    - cbn [native_loop] in E.
      assert (E' : ('(parent_id, puzzle, amount, solution, _) <- extract_5 spend ;;
                    '(clvm_cost, conditions) <- run_program run puzzle solution m ;;
                    cost_left1 <- subtract_cost m clvm_cost ;;
                    '(ret1, state1, cost_left2) <-
                      process_single_spend valid_key H K fl VEmpty ret st parent_id (Atom (th H puzzle)) amount conditions
                                           cost_left1 clvm_cost ;;
                    native_loop run valid_key H K tl ret1 state1 cost_left2 (ex + clvm_cost) (option_map N.pred sl) fl)
                   = Ok (r, s, l, e, term)).
      { destruct sl as [[|]|]; [discriminate E|exact E|exact E]. }
      clear E.
      destruct spend as [|p [|pz [|am [|sol ext]]]]; try discriminate E'.
      cbn [extract_5 bind] in E'. cbn [spend_tuples] in FITS. inversion FITS as [|? ? FT FITS']; subst. destruct FT as [FP FS].
      destruct (run_program run pz sol m) as [[c conds]|] eqn:RP; cbn [bind] in E'; [|discriminate E'].
      destruct (subtract_cost m c) as [m1|]; cbn [bind] in E'; [|discriminate E'].
      destruct (process_single_spend valid_key H K fl VEmpty ret st p (Atom (th H pz)) am conds m1 c)
        as [[[r1 s1] l1]|] eqn:PSP; cbn [bind] in E'; [|discriminate E'].
      pose proof (psp_ops valid_key K fl NU H _ _ _ _ _ _ _ _ _ _ _ PSP) as OA.
      destruct (psp_link valid_key K fl H _ _ _ _ _ _ _ _ _ _ _ PSP)
        as (parent & ph & amt & ab & sp & rs & SP & SZ & PAm & AO & BS & F1 & F2 & F3 & F4 & F5 & ARC & _ & _).
      destruct (sanitize_hash_32 _ _ _ SP) as [B32 ->].
      destruct (sanitize_hash_32 _ _ _ SZ) as [_ PH]. injection PH as PH'.
      destruct (IH _ _ _ _ _ _ _ _ _ _ E' FITS') as (news & BS2 & LN & SBL).
      exists (sp :: news). split; [|split].
      + rewrite BS2, BS. cbn [rev]. rewrite <- app_assoc. reflexivity.
      + cbn [spend_tuples length]. rewrite LN. reflexivity.
      + intros cl acc. cbn [spend_tuples combine map]. unfold cs_of at 1. cbn [fst snd].
        cbn [sb_loop]. unfold coin_spend_of_tuple at 1 2. cbn [cs_puzzle cs_solution].
        rewrite (program_of_fits _ FP), (program_of_fits_plain _ FS).
        destruct (run_program_two run run_exact pz sol m cl c conds RP) as [RP'|RP']; rewrite RP'; cbn [bind]; [|reflexivity].
        destruct (cl <? c); [reflexivity|].
        assert (CID : coin_id H (cs_coin (coin_spend_of_tuple sp (Atom parent, pz, am, sol))) = sp_coin_id sp).
        { unfold coin_spend_of_tuple, removal_of, coin_id. cbn. rewrite F4, F3.
          rewrite (amount_bytes _ _ _ AO PAm). congruence. }
        rewrite CID.
        pose proof (sb_ar conds OA (sp_coin_id sp) (map (fun c0 => (c0, @None bytes)) acc) _ acc (cl - c)
                      (ARC _ _) ltac:(rewrite map_map; cbn; apply map_id)) as SA.
        destruct (sb_conditions conds (sp_coin_id sp) (cl - c) acc) as [[acc1 cl1]|]; cbn [bind]; [|exact SA].
        destruct SA as [-> _].
        specialize (SBL cl1 (map fst (fold_left (fun a x => ar_push (sp_coin_id sp) x a) rs (map (fun c0 => (c0, @None bytes)) acc)))).
        destruct (sb_loop run H _ cl1 _) as [out|]; [|exact SBL].
        rewrite SBL. rewrite fold_push, map_app, map_map. cbn [fst]. rewrite map_id, rev_app_distr, map_rev, rev_involutive.
        cbn [map concat]. rewrite map_app, <- app_assoc. f_equal. f_equal.
        destruct (pushes_group (sp_coin_id sp) rs) as [G1 G2].
        apply (group_coins sp). split; [rewrite G1; symmetry; exact F5|exact G2].
  Qed.
End SB.

Section TopSB.
  Variable run : sexp -> sexp -> N -> res (N * sexp).
  Variable valid_key : bytes -> bool.
  Variable sig_ok : list (bytes * bytes) -> bool.
  Variable H : bytes -> bytes.
  Variable K : consts.
  Hypothesis run_exact : run_exact_hyp run.

  Theorem sbadd_correct program refs max_cost gf b spends pairs :
    run_block_generator2 run valid_key sig_ok H K program refs max_cost gf = Ok (b, spends, pairs) ->
    max_cost <= MAX_BLOCK_COST_CLVM ->
    f_no_unknown (g_cond gf) = true ->
    exists out iter cs,
      native_generator_output run program refs max_cost gf = Ok out /\ first out = Ok iter /\
      get_coinspends_for_trusted_block run H program refs gf = Ok cs /\
      (Forall fits_tuple (spend_tuples iter) ->
       match spend_bundle_additions run H cs return Prop with
       | Ok coins => coins = map fst (concat (map expected_additions spends))
       | Err e => e = CostExceeded
       end).
  Proof.
    intros E LM NU.
    destruct (coinspends_correct run valid_key sig_ok H K run_exact _ _ _ _ _ _ _ E LM) as (out & iter & GO & FO & LEN & CS).
    eexists out, iter, _. split; [exact GO|]. split; [exact FO|]. split; [exact CS|].
    unfold run_block_generator2 in E. unfold native_generator_output in GO.
    destruct (check_generator_quote program gf) as [[]|]; cbn [bind] in E; [|discriminate E].
    destruct (deser_program program) as [prog|]; cbn [bind] in *; [|discriminate E].
    destruct (subtract_cost max_cost (base_cost program prog gf)) as [clN|]; cbn [bind] in *; [|discriminate E].
    destruct (check_generator_node prog gf) as [[]|]; cbn [bind] in E; [|discriminate E].
    destruct (setup_generator_args refs gf) as [args|]; cbn [bind] in *; [|discriminate E].
    destruct (run_program run prog args clN) as [[c0 out0]|]; cbn [bind] in *; [|discriminate E].
    inversion GO; subst out0; clear GO.
    destruct (subtract_cost clN c0) as [cl1|]; cbn [bind] in E; [|discriminate E].
    rewrite FO in E. cbn [bind] in E.
    destruct (prepass iter) as [[]|]; cbn [bind] in E; [|discriminate E].
    destruct (native_loop run valid_key H K iter empty_bundle empty_state cl1 c0
                (if f_limit_spends (g_cond gf) then Some MAX_SPENDS_PER_BLOCK else None) (g_cond gf))
      as [[[[[ret state] cl2] exec] term]|] eqn:NLp; cbn [bind] in E; [|discriminate E].
    destruct term as [[|]|]; try discriminate E.
    destruct (validate_conditions H ret (fast_rev (b_spends_rev ret)) state) as [[]|]; cbn [bind] in E; [|discriminate E].
    destruct (validate_signature sig_ok (g_cond gf) (fast_rev (s_pkm_pairs_rev state))) as [[]|]; cbn [bind] in E; [|discriminate E].
    inversion E; subst b spends pairs; clear E.
    intro FITS.
    destruct (sb_native run valid_key H K (g_cond gf) run_exact NU _ _ _ _ _ _ _ _ _ _ _ NLp FITS) as (news & BS & _ & SBL).
    cbn [empty_bundle b_spends_rev] in BS. rewrite app_nil_r in BS.
    rewrite BS, fast_rev_rev, rev_involutive.
    unfold spend_bundle_additions. exact (SBL SB_BUDGET []).
  Qed.
End TopSB.


Section CSC.
  Variable run : sexp -> sexp -> N -> res (N * sexp).
  Variable valid_key : bytes -> bool.
  Variable H : bytes -> bytes.
  Variable K : consts.
  Variable fl : cflags.
  Hypothesis run_exact : run_exact_hyp run.

  Lemma csc_native : forall iter ret st m ex sl r s l e term,
    native_loop run valid_key H K iter ret st m ex sl fl = Ok (r, s, l, e, term) ->
    m <= MAX_BLOCK_COST_CLVM ->
    forall acc, exists news,
      b_spends_rev r = rev news ++ b_spends_rev ret /\
      csc_loop run H iter acc = Ok (rev (map (csc_of run) (combine news (spend_tuples iter))) ++ acc).
  Proof.
    induction iter as [b|spend _ tl IH]; intros ret st m ex sl r s l e term E LM acc.
    - cbn in E. inversion E; subst. exists []. repeat split.
    - cbn [native_loop] in E.
      assert (E' : ('(parent_id, puzzle, amount, solution, _) <- extract_5 spend ;;
                    '(clvm_cost, conditions) <- run_program run puzzle solution m ;;
                    cost_left1 <- subtract_cost m clvm_cost ;;
                    '(ret1, state1, cost_left2) <-
                      process_single_spend valid_key H K fl VEmpty ret st parent_id (Atom (th H puzzle)) amount conditions
                                           cost_left1 clvm_cost ;;
                    native_loop run valid_key H K tl ret1 state1 cost_left2 (ex + clvm_cost) (option_map N.pred sl) fl)
                   = Ok (r, s, l, e, term)).
      { destruct sl as [[|]|]; [discriminate E|exact E|exact E]. }
      clear E.
      destruct spend as [|p [|pz [|am [|sol ext]]]]; try discriminate E'.
      cbn [extract_5 bind] in E'.
      destruct (run_program run pz sol m) as [[c conds]|] eqn:RP; cbn [bind] in E'; [|discriminate E'].
      unfold subtract_cost in E'. destruct (m <? c) eqn:LT; cbn [bind] in E'; [discriminate E'|]. apply N.ltb_ge in LT.
      destruct (process_single_spend valid_key H K fl VEmpty ret st p (Atom (th H pz)) am conds (m - c) c)
        as [[[r1 s1] l1]|] eqn:PSP; cbn [bind] in E'; [|discriminate E'].
      pose proof (psp_T valid_key K fl H ret st p (Atom (th H pz)) am conds (m - c) c 0) as PT. rewrite PSP in PT.
      destruct PT as [Ll _].
      destruct (psp_link valid_key K fl H _ _ _ _ _ _ _ _ _ _ _ PSP)
        as (parent & ph & amt & ab & sp & rs & SP & SZ & PAm & AO & BS & F1 & F2 & F3 & F4 & F5 & ARC & _ & _).
      destruct (sanitize_hash_32 _ _ _ SP) as [B32 ->].
      destruct (sanitize_hash_32 _ _ _ SZ) as [_ PH]. injection PH as PH'.
      pose proof (run_program_more run run_exact _ _ _ _ _ _ RP LT LM) as RPM.
      set (entry := csc_of run (sp, (Atom parent, pz, am, sol))).
      destruct (IH _ _ _ _ _ _ _ _ _ _ E' ltac:(lia) (entry :: acc)) as (news & BS2 & CL).
      exists (sp :: news). split.
      + rewrite BS2, BS. cbn [rev]. rewrite <- app_assoc. reflexivity.
      + cbn [csc_loop extract_5 spend_tuples combine map rev]. unfold coin_spend_of. rewrite B32, PAm. cbn [bind].
        rewrite RPM.
        assert (EN : ({| cs_coin := {| co_parent := parent; co_ph := th H pz; co_amount := amt |};
                         cs_puzzle := program_of pz; cs_solution := program_of sol |}, csc_conditions conds []) = entry).
        { unfold entry, csc_of, tuple_conditions, coin_spend_of_tuple, removal_of. cbn [fst snd]. rewrite RPM.
          f_equal. f_equal. f_equal; congruence. }
        rewrite EN, CL. rewrite <- app_assoc. reflexivity.
  Qed.
End CSC.

Section TopCSC.
  Variable run : sexp -> sexp -> N -> res (N * sexp).
  Variable valid_key : bytes -> bool.
  Variable sig_ok : list (bytes * bytes) -> bool.
  Variable H : bytes -> bytes.
  Variable K : consts.
  Hypothesis run_exact : run_exact_hyp run.

  Theorem coinspends_with_conditions_correct program refs max_cost gf b spends pairs :
    run_block_generator2 run valid_key sig_ok H K program refs max_cost gf = Ok (b, spends, pairs) ->
    max_cost <= MAX_BLOCK_COST_CLVM ->
    exists out iter,
      native_generator_output run program refs max_cost gf = Ok out /\ first out = Ok iter /\
      get_coinspends_with_conditions_for_trusted_block run H program refs gf =
        Ok (map (csc_of run) (combine spends (spend_tuples iter))).
  Proof.
    unfold run_block_generator2, native_generator_output, get_coinspends_with_conditions_for_trusted_block, generator_output.
    intros E LM.
    destruct (check_generator_quote program gf) as [[]|]; cbn [bind] in *; [|discriminate E].
    destruct (deser_program program) as [prog|]; cbn [bind] in *; [|discriminate E].
    unfold subtract_cost at 1 in E. unfold subtract_cost at 1.
    destruct (max_cost <? base_cost program prog gf) eqn:LB; cbn [bind] in *; [discriminate E|]. apply N.ltb_ge in LB.
    destruct (check_generator_node prog gf) as [[]|]; cbn [bind] in *; [|discriminate E].
    destruct (setup_generator_args refs gf) as [args|]; cbn [bind] in *; [|discriminate E].
    set (clN := max_cost - base_cost program prog gf) in *.
    destruct (run_program run prog args clN) as [[c0 out0]|] eqn:RP; cbn [bind] in *; [|discriminate E].
    unfold subtract_cost at 1 in E. destruct (clN <? c0) eqn:LT; cbn [bind] in E; [discriminate E|]. apply N.ltb_ge in LT.
    assert (LclN : clN <= MAX_BLOCK_COST_CLVM) by (unfold clN; lia).
    rewrite (run_program_more run run_exact _ _ _ _ _ _ RP LT LclN). cbn [bind].
    destruct out0 as [|all_spends rest0]; cbn [first bind] in *; [discriminate E|].
    destruct (prepass all_spends) as [[]|]; cbn [bind] in *; [|discriminate E].
    destruct (native_loop run valid_key H K all_spends empty_bundle empty_state (clN - c0) c0
                (if f_limit_spends (g_cond gf) then Some MAX_SPENDS_PER_BLOCK else None) (g_cond gf))
      as [[[[[ret state] cl2] exec] term]|] eqn:NLp; cbn [bind] in E; [|discriminate E].
    destruct term as [[|]|]; try discriminate E.
    destruct (validate_conditions H ret (fast_rev (b_spends_rev ret)) state) as [[]|]; cbn [bind] in E; [|discriminate E].
    destruct (validate_signature sig_ok (g_cond gf) (fast_rev (s_pkm_pairs_rev state))) as [[]|]; cbn [bind] in E; [|discriminate E].
    inversion E; subst; clear E.
    destruct (csc_native run valid_key H K (g_cond gf) run_exact _ _ _ _ _ _ _ _ _ _ _ NLp ltac:(lia) []) as (news & BS & CL).
    cbn [empty_bundle b_spends_rev] in BS. rewrite app_nil_r in BS.
    exists (Pair all_spends rest0), all_spends. split; [reflexivity|]. split; [reflexivity|].
    rewrite BS, fast_rev_rev, rev_involutive.
    rewrite CL. cbn [bind]. rewrite app_nil_r, fast_rev_rev, rev_involutive. reflexivity.
  Qed.
End TopCSC.


(* build_generator conses every spend onto the front: fed in order, the generator lists the spends REVERSED *)
Lemma prepend_in_order l : forall items, Forall2 (fun c it => spend_item c = Some it) l items ->
  forall acc, prepend_spends l acc = Some (fold_right Pair acc (rev items)).
Proof.
  induction l as [|x l IH]; intros items F acc; inversion F as [|? it ? its Fx Fl]; subst; [reflexivity|].
  cbn [prepend_spends rev]. rewrite Fx, (IH _ Fl). rewrite fold_right_app. reflexivity.
Qed.

Lemma rebuild_example :
  exists run H, run_exact_hyp run /\ run_quote_hyp run /\
  exists vk sig K program refs max_cost gf b spends pairs cs program' s',
    run_block_generator2 run vk sig H K program refs max_cost gf = Ok (b, spends, pairs) /\
    get_coinspends_for_trusted_block run H program refs gf = Ok cs /\
    solution_generator (rev cs) = Some program' /\ program' <> program /\
    run_block_generator2 run vk sig H K program' [] max_cost gf = Ok s' /\
    neutral s' = neutral (b, spends, pairs) /\
    spend_bundle_additions run H cs = Ok (map fst (concat (map expected_additions spends))) /\
    length (concat (map expected_additions spends)) = 1%nat.
Proof.
  exists (toy_run sha256), sha256. split; [apply toy_exact_ok|]. split; [exact (toy_quote sha256)|].
  exists (fun _ => false), (fun _ => true), K0, EXTRAS_GENERATOR, [], 11000000000, (gflags_of_bits FLAG_NO_UNKNOWN_CONDS).
  do 6 eexists.
  split; [vm_compute; reflexivity|]. split; [vm_compute; reflexivity|]. split; [vm_compute; reflexivity|].
  split; [vm_compute; discriminate|]. split; [vm_compute; reflexivity|].
  split; [vm_compute; reflexivity|]. split; vm_compute; reflexivity.
Qed.
