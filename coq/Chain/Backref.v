(* Chain/Backref.v — clvmr 0.17.7 serde/de_br.rs: deserialization with back-references
   (0xfe <path atom>), as the `_old` algorithm states it: the value stack is itself a CLVM
   list and a back-reference is a path into it (traverse_path.rs).  Definitions only.
   The atom reader is the one of Clvm/Sexp.v restated without `length` on the remaining input
   (linear time on large generators); it accepts the same language. *)
From ChiaV.Base Require Import Bytes.
From ChiaV.Clvm Require Import Sexp.
Open Scope N_scope.

(* split off the first n bytes, None when the input is shorter *)
Fixpoint take (n : nat) (bs : bytes) : option (bytes * bytes) :=
  match n with
  | O => Some ([], bs)
  | S n' => match bs with
            | [] => None
            | b :: r => match take n' r with Some (p, q) => Some (b :: p, q) | None => None end
            end
  end.

(* decode_size_with_offset: first byte [b] (>= 0x80) already consumed *)
Definition decode_size_f (b : N) (rest : bytes) : option (N * bytes) :=
  let k := leading_ones b in
  if Nat.leb 7 k then None
  else
    match take (pred k) rest with
    | None => None
    | Some (ext, rest') =>
        let size := (b mod 2 ^ (8 - N.of_nat k)) * 256 ^ N.of_nat (pred k) + be2n ext in
        if 0x400000000 <=? size then None else Some (size, rest')
    end.

(* parse_atom_ptr: one atom whose first byte has been consumed *)
Definition parse_atom_f (b : byte) (rest : bytes) : option (bytes * bytes) :=
  if b2n b <? 128 then Some ([b], rest)
  else match decode_size_f (b2n b) rest with
       | None => None
       | Some (size, rest') =>
           (* binary comparison first: the declared size must not become a unary number unless the bytes are there *)
           if N.of_nat (length rest') <? size then None else take (N.to_nat size) rest'
       end.

(* traverse_path.rs: the path is an atom read as a big-endian number; leading zero bytes are
   skipped, the most significant set bit is the end marker, bits are consumed from the least
   significant end: 0 = first, 1 = rest.  An all-zero (or empty) path yields nil. *)
Fixpoint strip_zeros (p : bytes) : bytes :=
  match p with
  | b :: r => if b2n b =? 0 then strip_zeros r else p
  | [] => []
  end.

Fixpoint walk (fuel : nat) (n : N) (t : sexp) : option sexp :=
  match fuel with
  | O => None
  | S f =>
      if n =? 1 then Some t
      else match t with
           | Atom _ => None
           | Pair l r => walk f (N.div2 n) (if N.odd n then r else l)
           end
  end.

Definition traverse_path (path : bytes) (t : sexp) : option sexp :=
  match strip_zeros path with
  | [] => Some nil
  | p => walk (S (8 * length p)) (be2n p) t
  end.

Inductive parse_op := OpSexp | OpCons.

Definition BACK_REFERENCE : byte := xfe.
Definition CONS_BOX_MARKER : byte := xff.

Fixpoint br_loop (fuel : nat) (ops : list parse_op) (values : sexp) (bs : bytes) : option sexp :=
  match fuel with
  | O => None
  | S f =>
      match ops with
      | [] => match values with Pair v _ => Some v | Atom _ => None end
      | OpSexp :: ops' =>
          match bs with
          | [] => None
          | b :: rest =>
              if byte_eqb b CONS_BOX_MARKER then br_loop f (OpSexp :: OpSexp :: OpCons :: ops') values rest
              else if byte_eqb b BACK_REFERENCE then
                match rest with
                | [] => None
                | b1 :: rest1 =>
                    match parse_atom_f b1 rest1 with
                    | None => None
                    | Some (path, rest2) =>
                        match traverse_path path values with
                        | None => None
                        | Some v => br_loop f ops' (Pair v values) rest2
                        end
                    end
                end
              else match parse_atom_f b rest with
                   | None => None
                   | Some (a, rest') => br_loop f ops' (Pair (Atom a) values) rest'
                   end
          end
      | OpCons :: ops' =>
          match values with
          | Pair vr (Pair vl vrest) => br_loop f ops' (Pair (Pair vl vr) vrest) bs
          | _ => None
          end
      end
  end.

(* every step consumes a byte or is one of the (at most length bs) Cons operations *)
Definition node_from_bytes_backrefs (bs : bytes) : option sexp :=
  br_loop (2 * length bs + 2) [OpSexp] nil bs.

(* the plain reader (no back-references), linear time; trailing bytes ignored like clvmr *)
Fixpoint plain_loop (fuel : nat) (ops : list parse_op) (values : list sexp) (bs : bytes) : option sexp :=
  match fuel with
  | O => None
  | S f =>
      match ops with
      | [] => match values with v :: _ => Some v | [] => None end
      | OpSexp :: ops' =>
          match bs with
          | [] => None
          | b :: rest =>
              if byte_eqb b CONS_BOX_MARKER then plain_loop f (OpSexp :: OpSexp :: OpCons :: ops') values rest
              else match parse_atom_f b rest with
                   | None => None
                   | Some (a, rest') => plain_loop f ops' (Atom a :: values) rest'
                   end
          end
      | OpCons :: ops' =>
          match values with
          | vr :: vl :: vrest => plain_loop f ops' (Pair vl vr :: vrest) bs
          | _ => None
          end
      end
  end.

Definition node_from_bytes_f (bs : bytes) : option sexp :=
  plain_loop (2 * length bs + 2) [OpSexp] [] bs.
