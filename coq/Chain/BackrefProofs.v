(* Chain/BackrefProofs.v — both readers of Chain/Backref.v (back-reference reader, linear plain reader) invert the
   plain serializer of Clvm/Sexp.v: reader (ser t) = t.  Uses unit bundle's round trip for the atom format. *)
From Coq Require Import Lia ZArith.
From ChiaV.Base Require Import Bytes.
From ChiaV.Clvm Require Import Sexp Ints.
From ChiaV.Bundle Require Import SexpProofs.
From ChiaV.Chain Require Import Backref.
Open Scope N_scope.

Lemma take_spec n : forall l, take n l = if Nat.ltb (length l) n then None else Some (firstn n l, skipn n l).
Proof.
  induction n as [|n IH]; intro l; [reflexivity|].
  destruct l as [|b r]; [reflexivity|]. cbn [take length firstn skipn]. rewrite IH.
  change (Nat.ltb (S (length r)) (S n)) with (Nat.ltb (length r) n). destruct (Nat.ltb (length r) n); reflexivity.
Qed.

Lemma decode_size_f_eq b rest : decode_size_f b rest = decode_size b rest.
Proof.
  unfold decode_size_f, decode_size. destruct (Nat.leb 7 (leading_ones b)); [reflexivity|].
  rewrite take_spec. destruct (Nat.ltb (length rest) (pred (leading_ones b))); reflexivity.
Qed.

Lemma parse_atom_f_eq b rest : parse_atom_f b rest = parse_atom b rest.
Proof.
  unfold parse_atom_f, parse_atom. destruct (b2n b <? 128); [reflexivity|].
  rewrite decode_size_f_eq. destruct (decode_size (b2n b) rest) as [[size rest']|]; [|reflexivity].
  destruct (N.of_nat (length rest') <? size); [reflexivity|].
  rewrite take_spec. reflexivity.
Qed.

(* the first byte of a serialized atom is neither the cons marker nor the back-reference marker, and the atom
   reader returns the atom and the rest of the input *)
Lemma ser_atom_read a p rest : ser_atom a = Some p ->
  exists b0 tl, p ++ rest = b0 :: tl /\ byte_eqb b0 xff = false /\ byte_eqb b0 xfe = false /\
                parse_atom_f b0 tl = Some (a, rest).
Proof.
  intro S. pose proof (deser_atom a p rest 0 S) as D.
  destruct (p ++ rest) as [|b0 tl] eqn:E; [discriminate D|].
  exists b0, tl. split; [reflexivity|]. cbn [deser_fuel] in D.
  destruct (byte_eqb b0 xff) eqn:F; [discriminate D|]. split; [reflexivity|].
  destruct (byte_eqb b0 x80) eqn:G.
  - inversion D; subst. destruct (byte_eqb_spec b0 x80) as [->|]; [|discriminate G].
    split; [reflexivity|].
    rewrite parse_atom_f_eq. unfold parse_atom. change (b2n x80 <? 128) with false. cbv iota.
    change (decode_size (b2n x80) rest) with (Some (0, rest)).
    cbv beta iota zeta.
    destruct (N.ltb_spec (N.of_nat (length rest)) 0%N) as [Hq|_]; [lia|]. reflexivity.
  - rewrite <- parse_atom_f_eq in D.
    destruct (parse_atom_f b0 tl) as [[a' r']|] eqn:P; [|discriminate D]. inversion D; subst.
    split; [|reflexivity].
    destruct (byte_eqb b0 xfe) eqn:X; [|reflexivity].
    destruct (byte_eqb_spec b0 xfe) as [->|]; [|discriminate X]. discriminate P.
Qed.

Fixpoint steps (t : sexp) : nat :=
  match t with Atom _ => 1%nat | Pair l r => (steps l + steps r + 2)%nat end.

Lemma ser_nonempty t b : ser t = Some b -> (length b >= 1)%nat.
Proof.
  destruct t as [a|l r]; cbn [ser]; intro S.
  - unfold ser_atom in S. destruct (atom_prefix _ _) as [pre|] eqn:AP; [|discriminate S]. inversion S; subst.
    destruct a; [cbn in AP; inversion AP; cbn; lia|rewrite app_length; cbn; lia].
  - destruct (ser l); [|discriminate S]. destruct (ser r); [|discriminate S]. inversion S. cbn. lia.
Qed.

Lemma steps_le t : forall b, ser t = Some b -> (steps t + 1 <= 2 * length b)%nat.
Proof.
  induction t as [a|l IHl r IHr]; intros b S.
  - pose proof (ser_nonempty _ _ S). cbn [steps]. lia.
  - cbn [ser] in S. destruct (ser l) as [x|] eqn:EL; [|discriminate S]. destruct (ser r) as [y|] eqn:ER; [|discriminate S].
    inversion S; subst. specialize (IHl _ eq_refl). specialize (IHr _ eq_refl).
    cbn [steps length]. rewrite app_length. lia.
Qed.

(* the back-reference reader inverts the plain serializer *)
Lemma br_loop_ser t : forall b, ser t = Some b ->
  forall ops values rest fuel,
    br_loop (steps t + fuel) (OpSexp :: ops) values (b ++ rest) = br_loop fuel ops (Pair t values) rest.
Proof.
  induction t as [a|l IHl r IHr]; intros b S ops values rest fuel.
  - cbn [ser] in S. destruct (ser_atom_read a b rest S) as (b0 & tl & E & F1 & F2 & P).
    cbn [steps plus br_loop]. rewrite E. unfold CONS_BOX_MARKER, BACK_REFERENCE. rewrite F1, F2, P. reflexivity.
  - cbn [ser] in S. destruct (ser l) as [x|] eqn:EL; [|discriminate S]. destruct (ser r) as [y|] eqn:ER; [|discriminate S].
    inversion S; subst b; clear S.
    cbn [steps]. replace (steps l + steps r + 2 + fuel)%nat with (S (steps l + (steps r + (1 + fuel))))%nat by lia.
    cbn [app br_loop]. unfold CONS_BOX_MARKER. change (byte_eqb xff xff) with true. cbv iota.
    rewrite <- app_assoc. rewrite (IHl x eq_refl). rewrite (IHr y eq_refl).
    cbn [plus br_loop]. reflexivity.
Qed.

Theorem backrefs_ser t b : ser t = Some b -> node_from_bytes_backrefs b = Some t.
Proof.
  intro S. unfold node_from_bytes_backrefs. pose proof (steps_le t b S) as L.
  replace (2 * length b + 2)%nat with (steps t + (2 * length b + 2 - steps t))%nat by lia.
  rewrite <- (app_nil_r b) at 2. rewrite (br_loop_ser t b S).
  destruct (2 * length b + 2 - steps t)%nat eqn:F; [lia|]. reflexivity.
Qed.

Lemma plain_loop_ser t : forall b, ser t = Some b ->
  forall ops values rest fuel,
    plain_loop (steps t + fuel) (OpSexp :: ops) values (b ++ rest) = plain_loop fuel ops (t :: values) rest.
Proof.
  induction t as [a|l IHl r IHr]; intros b S ops values rest fuel.
  - cbn [ser] in S. destruct (ser_atom_read a b rest S) as (b0 & tl & E & F1 & F2 & P).
    cbn [steps plus plain_loop]. rewrite E. unfold CONS_BOX_MARKER. rewrite F1, P. reflexivity.
  - cbn [ser] in S. destruct (ser l) as [x|] eqn:EL; [|discriminate S]. destruct (ser r) as [y|] eqn:ER; [|discriminate S].
    inversion S; subst b; clear S.
    cbn [steps]. replace (steps l + steps r + 2 + fuel)%nat with (S (steps l + (steps r + (1 + fuel))))%nat by lia.
    cbn [app plain_loop]. unfold CONS_BOX_MARKER. change (byte_eqb xff xff) with true. cbv iota.
    rewrite <- app_assoc. rewrite (IHl x eq_refl). rewrite (IHr y eq_refl).
    cbn [plus plain_loop]. reflexivity.
Qed.

Theorem plain_f_ser t b : ser t = Some b -> node_from_bytes_f b = Some t.
Proof.
  intro S. unfold node_from_bytes_f. pose proof (steps_le t b S) as L.
  replace (2 * length b + 2)%nat with (steps t + (2 * length b + 2 - steps t))%nat by lia.
  rewrite <- (app_nil_r b) at 2. rewrite (plain_loop_ser t b S).
  destruct (2 * length b + 2 - steps t)%nat eqn:F; [lia|]. reflexivity.
Qed.
