(* Chain/Trusted.v — mirrors of the trusted-block helpers:
     chia-consensus/src/additions_and_removals.rs   additions_and_removals (its own condition scan through
                                                    clvm-traits tuple matchers and parse_amount)
     chia-consensus/src/run_block_generator.rs      get_coinspends_for_trusted_block,
                                                    get_coinspends_with_conditions_for_trusted_block
     chia-consensus/src/get_puzzle_and_solution.rs  parse_coin_spend, get_puzzle_and_solution_for_coin
     chia-protocol/src/spend_bundle.rs              SpendBundle::additions
     chia-consensus/src/solution_generator.rs       build_generator, solution_generator (over the recovered coin spends)
   CLVM evaluation is the oracle `run`.  Definitions only. *)
From ChiaV.Base Require Import Bytes.
From ChiaV.Clvm Require Import Sexp Ints TreeHash.
From ChiaV.Gen Require Import Opcodes Ladders ChainConsts.
From ChiaV.Cond Require Import Model.
From ChiaV.Chain Require Import Backref Rom Generator.
Open Scope N_scope.

Record coin := { co_parent : bytes; co_ph : bytes; co_amount : N }.
Record coin_spend := { cs_coin : coin; cs_puzzle : bytes; cs_solution : bytes }.

(* clvm-traits: BytesImpl<32>::from_clvm *)
Definition bytes32_of (t : sexp) : option bytes :=
  match t with
  | Atom b => if Nat.eqb (length b) 32 then Some b else None
  | Pair _ _ => None
  end.

(* Program::from_clvm(..).unwrap_or_default(): node_to_bytes has a 2 000 000 byte limit *)
Definition program_of (t : sexp) : bytes :=
  match ser t with
  | Some b => if 2000000 <? nlen b then [x80] else b
  | None => [x80]
  end.

(* ---------------- solution_generator.rs: build_generator / solution_generator over coin spends ----------------
   (q . ((parent puzzle amount solution) ...)); reveal and solution are parsed with node_from_bytes_backrefs, the amount
   is a.new_number (canonical atom); every spend is consed onto the FRONT of the list, so the generator lists the
   spends in reverse order of the input; node_to_bytes has a 2 000 000 byte limit *)
Definition spend_item (cs : coin_spend) : option sexp :=
  match node_from_bytes_backrefs (cs_solution cs), node_from_bytes_backrefs (cs_puzzle cs) with
  | Some sol, Some puz =>
      Some (Pair (Atom (co_parent (cs_coin cs)))
                 (Pair puz (Pair (Atom (canon_n (co_amount (cs_coin cs)))) (Pair sol nil))))
  | _, _ => None
  end.

Fixpoint prepend_spends (spends : list coin_spend) (spend_list : sexp) : option sexp :=
  match spends with
  | [] => Some spend_list
  | s :: r => match spend_item s with
              | Some item => prepend_spends r (Pair item spend_list)
              | None => None
              end
  end.

Definition build_generator (spends : list coin_spend) : option sexp :=
  match prepend_spends spends nil with
  | Some l => Some (Pair (Atom [x01]) (Pair l nil))
  | None => None
  end.

Definition solution_generator (spends : list coin_spend) : option bytes :=
  match build_generator spends with
  | Some g => match ser g with
              | Some b => if 2000000 <? nlen b then None else Some b
              | None => None
              end
  | None => None
  end.

Section Trusted.
  Variable run : sexp -> sexp -> N -> res (N * sexp).
  Variable H : bytes -> bytes.

  Definition coin_id (c : coin) : bytes := H (co_parent c ++ co_ph c ++ coin_amount_bytes (co_amount c)).

  (* ---------------- additions_and_removals ---------------- *)
  (* the hint of a CREATE_COIN as this helper computes it: ((hint . _) . _) with hint an atom of 1..32 bytes
     (since fix 0a21e864 an empty atom is no hint: `hint_len > 0 && hint_len <= 32`) *)
  Definition ar_hint (t : sexp) : option bytes :=
    match t with
    | Pair (Pair (Atom h) _) _ =>
        if negb (Nat.eqb (length h) 0) && Nat.leb (length h) 32 then Some h else None
    | _ => None
    end.

  (* one condition of the inner loop: None = skipped (`continue`), Some = a CREATE_COIN that is pushed *)
  Definition ar_condition (c : sexp) : res (option (bytes * N * option bytes)) :=
    op <- first c ;;
    match op with
    | Pair _ _ => Ok None
    | Atom opb =>
        if negb (bytes_eqb opb [n2b CREATE_COIN]) then Ok None
        else
          c1 <- rest c ;;
          match c1 with
          | Pair pht (Pair amount hint) =>
              match bytes32_of pht with
              | None => Err InvalidCondition
              | Some ph =>
                  amt <- parse_amount amount InvalidCoinAmount ;;
                  Ok (Some (ph, amt, ar_hint hint))
              end
          | _ => Err InvalidCondition
          end
    end.

  Definition ar_push (spend_id : bytes) (r : option (bytes * N * option bytes)) (acc : list (coin * option bytes))
    : list (coin * option bytes) :=
    match r with
    | Some (ph, amt, h) => ({| co_parent := spend_id; co_ph := ph; co_amount := amt |}, h) :: acc
    | None => acc
    end.

  (* the inner loop over one spend's conditions; validation_error::next rejects a non-nil terminator *)
  Fixpoint ar_conditions (iter : sexp) (spend_id : bytes) (acc : list (coin * option bytes))
    : res (list (coin * option bytes)) :=
    match iter with
    | Atom [] => Ok acc
    | Atom _ => Err InvalidCondition
    | Pair c nxt => r <- ar_condition c ;; ar_conditions nxt spend_id (ar_push spend_id r acc)
    end.

  Fixpoint ar_loop (iter : sexp) (cost_left : N) (adds : list (coin * option bytes)) (rems : list (bytes * coin))
    : res (list (coin * option bytes) * list (bytes * coin)) :=
    match iter with
    | Atom _ => Ok (adds, rems)
    | Pair spend tail =>
        match spend with
        | Pair parent_t (Pair puzzle (Pair amount_t (Pair solution _))) =>
            match bytes32_of parent_t with
            | None => Err InvalidCondition
            | Some parent =>
                amount <- parse_amount amount_t InvalidCoinAmount ;;
                '(clvm_cost, conds) <- run_program run puzzle solution cost_left ;;
                cost_left1 <- subtract_cost cost_left clvm_cost ;;
                let c := {| co_parent := parent; co_ph := th H puzzle; co_amount := amount |} in
                let spend_id := coin_id c in
                adds1 <- ar_conditions conds spend_id adds ;;
                ar_loop tail cost_left1 adds1 ((spend_id, c) :: rems)
            end
        | _ => Err InvalidCondition
        end
    end.

  (* additions and removals, each in the order the helper pushes them *)
  Definition additions_and_removals (program : bytes) (refs : list bytes) (gf : gflags)
    : res (list (coin * option bytes) * list (bytes * coin)) :=
    prog <- deser_program program ;;
    args <- setup_generator_args refs gf ;;
    '(clvm_cost, out) <- run_program run prog args MAX_BLOCK_COST_CLVM ;;
    cost_left <- subtract_cost MAX_BLOCK_COST_CLVM clvm_cost ;;
    all_spends <- first out ;;
    _ <- prepass all_spends ;;
    '(adds, rems) <- ar_loop all_spends cost_left [] [] ;;
    Ok (fast_rev adds, fast_rev rems).

  (* ---------------- get_coinspends_for_trusted_block ---------------- *)
  Definition generator_output (program : bytes) (refs : list bytes) (gf : gflags) : res sexp :=
    _ <- check_generator_quote program gf ;;
    prog <- deser_program program ;;
    _ <- check_generator_node prog gf ;;
    args <- setup_generator_args refs gf ;;
    '(_, out) <- run_program run prog args MAX_BLOCK_COST_CLVM ;;
    Ok out.

  Definition coin_spend_of (parent_t puzzle amount_t solution : sexp) : res coin_spend :=
    match bytes32_of parent_t with
    | None => Err InvalidParentId
    | Some parent =>
        amount <- parse_amount amount_t InvalidCoinAmount ;;
        Ok {| cs_coin := {| co_parent := parent; co_ph := th H puzzle; co_amount := amount |};
              cs_puzzle := program_of puzzle; cs_solution := program_of solution |}
    end.

  Fixpoint cs_loop (iter : sexp) (acc : list coin_spend) : res (list coin_spend) :=
    match iter with
    | Atom _ => Ok acc
    | Pair spend rest =>
        match extract_5 spend with
        | Err _ => cs_loop rest acc                      (* malformed spend tuples are skipped *)
        | Ok (parent_t, puzzle, amount_t, solution, _) =>
            cs <- coin_spend_of parent_t puzzle amount_t solution ;;
            cs_loop rest (cs :: acc)
        end
    end.

  Definition get_coinspends_for_trusted_block (program : bytes) (refs : list bytes) (gf : gflags) : res (list coin_spend) :=
    out <- generator_output program refs gf ;;
    match out with
    | Pair fst_ _ => l <- cs_loop fst_ [] ;; Ok (fast_rev l)
    | Atom _ => Err GeneratorRuntimeError
    end.

  (* ---------------- get_coinspends_with_conditions_for_trusted_block ---------------- *)
  Definition is_high_priority_condition (op : N) : bool :=
    (op <? 65536) &&
    ((op =? AGG_SIG_PARENT) || (op =? AGG_SIG_PUZZLE) || (op =? AGG_SIG_AMOUNT) || (op =? AGG_SIG_PUZZLE_AMOUNT)
     || (op =? AGG_SIG_PARENT_AMOUNT) || (op =? AGG_SIG_PARENT_PUZZLE) || (op =? AGG_SIG_UNSAFE) || (op =? AGG_SIG_ME)
     || (op =? CREATE_COIN)).

  (* the 'inner loop: None = "continue 'outer" (an atom of >= 1024 bytes among the first arguments) *)
  Fixpoint cond_args (iter : sexp) (acc : list bytes) : option (list bytes) :=
    match iter with
    | Atom _ => Some (fast_rev acc)
    | Pair v rest =>
        if Nat.ltb (length acc) 6 then
          match v with
          | Atom b => if Nat.leb 1024 (length b) then None else cond_args rest (b :: acc)
          | Pair _ _ => cond_args rest acc
          end
        else Some (fast_rev acc)
    end.

  Fixpoint csc_conditions (iter : sexp) (acc : list (N * list bytes)) : list (N * list bytes) :=
    match iter with
    | Atom _ => fast_rev acc
    | Pair condition rest =>
        match condition with
        | Pair opn args =>
            match (match opn with Atom b => small_number b | Pair _ _ => None end) with
            | None => csc_conditions rest acc
            | Some opcode =>
                match cond_args args [] with
                | None => csc_conditions rest acc
                | Some bytes_vec =>
                    if (MAX_CONDITIONS_PER_SPEND <=? N.of_nat (length acc)) && negb (is_high_priority_condition opcode)
                    then csc_conditions rest acc
                    else csc_conditions rest ((opcode, bytes_vec) :: acc)
                end
            end
        | Atom _ => csc_conditions rest acc
        end
    end.

  Fixpoint csc_loop (iter : sexp) (acc : list (coin_spend * list (N * list bytes)))
    : res (list (coin_spend * list (N * list bytes))) :=
    match iter with
    | Atom _ => Ok acc
    | Pair spend rest =>
        match extract_5 spend with
        | Err _ => csc_loop rest acc
        | Ok (parent_t, puzzle, amount_t, solution, _) =>
            cs <- coin_spend_of parent_t puzzle amount_t solution ;;
            match run_program run puzzle solution MAX_BLOCK_COST_CLVM with
            | Err _ => Err GeneratorRuntimeError
            | Ok (_, conds) => csc_loop rest ((cs, csc_conditions conds []) :: acc)
            end
        end
    end.

  Definition get_coinspends_with_conditions_for_trusted_block (program : bytes) (refs : list bytes) (gf : gflags)
    : res (list (coin_spend * list (N * list bytes))) :=
    out <- generator_output program refs gf ;;
    match out with
    | Pair fst_ _ =>
        _ <- prepass fst_ ;;                      (* here a malformed spend tuple is an error, not skipped *)
        l <- csc_loop fst_ [] ;; Ok (fast_rev l)
    | Atom _ => Err GeneratorRuntimeError
    end.

  (* ---------------- get_puzzle_and_solution_for_coin ---------------- *)
  Definition parse_coin_spend (coin_spend : sexp) : res (bytes * N * sexp * sexp) :=
    f0 <- first coin_spend ;;
    parent <- atom_of f0 InvalidParentId ;;
    r1 <- rest coin_spend ;;
    puzzle <- first r1 ;;
    r2 <- rest r1 ;;
    f2 <- first r2 ;;
    amount <- parse_amount f2 InvalidCoinAmount ;;
    r3 <- rest r2 ;;
    solution <- first r3 ;;
    _extra <- rest r3 ;;                 (* since fix 1aa0e3f6: spend-level extras after the solution are ignored *)
    Ok (parent, amount, puzzle, solution).

  Fixpoint lookup_loop (iter : sexp) (find : coin) : res (sexp * sexp) :=
    match iter with
    | Atom [] => Err InvalidCondition
    | Atom _ => Err InvalidCondition
    | Pair cs nxt =>
        '(parent, amount, puzzle, solution) <- parse_coin_spend cs ;;
        if negb (bytes_eqb parent (co_parent find)) || negb (amount =? co_amount find) then lookup_loop nxt find
        else if negb (bytes_eqb (th H puzzle) (co_ph find)) then lookup_loop nxt find
        else Ok (puzzle, solution)
    end.

  Definition get_puzzle_and_solution_for_coin (generator_result : sexp) (find : coin) : res (sexp * sexp) :=
    iter <- first generator_result ;;
    lookup_loop iter find.

  (* ---------------- SpendBundle::additions ---------------- *)
  (* <(Bytes32, (u64, NodePtr))>::from_clvm *)
  Definition sb_create_coin (c : sexp) : option (bytes * N) :=
    match c with
    | Pair pht (Pair amount _) =>
        match bytes32_of pht, amount with
        | Some ph, Atom ab =>
            match decode_number 8 false ab with
            | Some be => Some (ph, be2n be)
            | None => None
            end
        | _, _ => None
        end
    | _ => None
    end.

  Fixpoint sb_conditions (conds : sexp) (parent : bytes) (cost_left : N) (acc : list coin) : res (list coin * N) :=
    match conds with
    | Atom _ => Ok (acc, cost_left)
    | Pair c tail =>
        match c with
        | Atom _ => Err GeneratorRuntimeError                       (* first(c) fails *)
        | Pair op c1 =>
            match op with
            | Pair _ _ => Err GeneratorRuntimeError
            | Atom [b] =>
                if b2n b =? SB_CREATE_COIN then
                  match sb_create_coin c1 with
                  | None => Err GeneratorRuntimeError
                  | Some (ph, amount) =>
                      let acc1 := {| co_parent := parent; co_ph := ph; co_amount := amount |} :: acc in
                      if cost_left <? SB_CREATE_COIN_COST then Err CostExceeded
                      else sb_conditions tail parent (cost_left - SB_CREATE_COIN_COST) acc1
                  end
                else sb_conditions tail parent cost_left acc
            | Atom _ => sb_conditions tail parent cost_left acc
            end
        end
    end.

  Fixpoint sb_loop (spends : list coin_spend) (cost_left : N) (acc : list coin) : res (list coin) :=
    match spends with
    | [] => Ok (fast_rev acc)
    | cs :: more =>
        match node_from_bytes_backrefs (cs_puzzle cs), node_from_bytes_f (cs_solution cs) with
        | Some puzzle, Some solution =>
            '(cost, conds) <- run_program run puzzle solution cost_left ;;
            if cost_left <? cost then Err CostExceeded
            else
              '(acc1, cost_left1) <- sb_conditions conds (coin_id (cs_coin cs)) (cost_left - cost) acc ;;
              sb_loop more cost_left1 acc1
        | _, _ => Err GeneratorRuntimeError
        end
    end.

  Definition spend_bundle_additions (spends : list coin_spend) : res (list coin) := sb_loop spends SB_BUDGET [].
End Trusted.
