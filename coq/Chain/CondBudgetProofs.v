(* Chain/CondBudgetProofs.v — the condition mirror (Cond/Model.v, EmptyVisitor) is independent of the
   cost budget and of the execution cost it is told, up to CostExceeded: every step function transports
   along "more budget, execution costs erased". *)
From Coq Require Import Lia ZArith.
From ChiaV.Base Require Import Bytes.
From ChiaV.Clvm Require Import Sexp Ints.
From ChiaV.Gen Require Import Opcodes Ladders.
From ChiaV.Cond Require Import Model.
From ChiaV.Chain Require Import Backref Rom Generator GeneratorSpec.
Open Scope N_scope.

Definition T (d : N) (st : lstate) : lstate :=
  {| l_ret := erase_b (l_ret st); l_state := l_state st; l_spend := erase_s (l_spend st);
     l_max_cost := l_max_cost st + d; l_countdown := l_countdown st; l_counter := l_counter st |}.

(* a step function transports along T: success (with the budget only going down) and non-cost failures *)
Definition transports (g : lstate -> res lstate) : Prop :=
  forall d st,
    match g st with
    | Ok st1 => l_max_cost st1 <= l_max_cost st /\ g (T d st) = Ok (T d st1)
    | Err e => e <> CostExceeded -> g (T d st) = Err e
    end.

Lemma erase_s_idem s : erase_s (erase_s s) = erase_s s.
Proof. reflexivity. Qed.
Lemma erase_b_idem b : erase_b (erase_b b) = erase_b b.
Proof. unfold erase_b; cbn. rewrite map_map. f_equal. Qed.

Lemma transports_ok g : transports g -> forall d st st1, g st = Ok st1 ->
  l_max_cost st1 <= l_max_cost st /\ g (T d st) = Ok (T d st1).
Proof. intros Hg d st st1 E. specialize (Hg d st). rewrite E in Hg. exact Hg. Qed.
Lemma transports_err g : transports g -> forall d st e, g st = Err e -> e <> CostExceeded -> g (T d st) = Err e.
Proof. intros Hg d st e E. specialize (Hg d st). rewrite E in Hg. exact Hg. Qed.

Lemma transports_bind g h : transports g -> transports h -> transports (fun st => bind (g st) h).
Proof.
  intros Hg Hh d st. specialize (Hg d st). destruct (g st) as [st1|e] eqn:E; cbn [bind].
  - destruct Hg as [L Eg]. rewrite Eg. cbn [bind]. specialize (Hh d st1).
    destruct (h st1) as [st2|e2].
    + destruct Hh. split; [lia|assumption].
    + assumption.
  - intro ne. rewrite (Hg ne). reflexivity.
Qed.

Lemma transports_charge c : transports (fun st => charge st c).
Proof.
  intros d st. unfold charge. cbn.
  destruct (l_max_cost st <? c) eqn:E.
  - intro ne. congruence.
  - apply N.ltb_ge in E. cbn. split; [lia|].
    assert (l_max_cost st + d <? c = false) as -> by (apply N.ltb_ge; lia).
    unfold T. cbn. f_equal. f_equal. lia.
Qed.

Lemma transports_decrement fl : transports (decrement fl).
Proof.
  intros d st. unfold decrement.
  destruct (f_cost_conds fl); [split; [lia|reflexivity]|].
  cbn. destruct (l_countdown st =? 0); [congruence|].
  cbn. split; [lia|reflexivity].
Qed.

Lemma transports_ret (f : lstate -> lstate) :
  (forall d st, l_max_cost (f st) = l_max_cost st /\ f (T d st) = T d (f st)) ->
  transports (fun st => Ok (f st)).
Proof. intros Hf d st. destruct (Hf d st) as [A B]. split; [lia|]. rewrite B. reflexivity. Qed.

Lemma mark_T d st : l_max_cost (mark_not_ephemeral st) = l_max_cost st /\ mark_not_ephemeral (T d st) = T d (mark_not_ephemeral st).
Proof.
  unfold mark_not_ephemeral. cbn. destruct (sp_has_relative (l_spend st)); [split; reflexivity|].
  cbn. split; [reflexivity|]. unfold T, with_state, with_spend; cbn. rewrite map_length. reflexivity.
Qed.

Lemma push_pair_T fl d st pk msg : l_max_cost (push_pair fl st pk msg) = l_max_cost st /\ push_pair fl (T d st) pk msg = T d (push_pair fl st pk msg).
Proof. unfold push_pair. destruct (f_dont_validate fl); split; reflexivity. Qed.

Ltac t_ret := apply transports_ret; intros; split; reflexivity.

Ltac step1 :=
  match goal with
  | |- context [if ?c then _ else _] => destruct c
  | |- context [match ?c with Some _ => _ | None => _ end] => destruct c
  | |- context [bind (check_agg_sig_unsafe_message ?k ?m) _] => destruct (check_agg_sig_unsafe_message k m) as [[]|]
  | |- context [bind (spend_id_from_self ?a ?b ?c ?d ?e) _] => destruct (spend_id_from_self a b c d e)
  end.

Ltac finish :=
  first [ intro; reflexivity
        | intro; congruence
        | split; [cbn; lia | cbn; rewrite ?map_length; reflexivity] ].

Section S.
  Variable valid_key : bytes -> bool.
  Variable K : consts.
  Variable fl : cflags.

  Lemma transports_apply cva : transports (fun st => apply_condition valid_key K fl st cva).
  Proof.
    destruct cva; intros d st;
      try (exact (transports_charge _ d st));
      unfold apply_condition, decrement, push_pair, mark_not_ephemeral, with_ret, with_spend, with_state, T;
      cbn; repeat (step1; cbn); try finish.
  Qed.

  Lemma transports_precharge op : transports (fun st => precharge fl st op).
  Proof.
    intros d st. unfold precharge.
    repeat match goal with |- context [if ?c then _ else _] => destruct c end;
      try (exact (transports_charge _ d st)); (split; [lia|reflexivity]).
  Qed.

  Lemma transports_process_condition c : transports (process_condition valid_key K fl VEmpty c).
  Proof.
    intros d st. unfold process_condition.
    destruct (first c) as [f|e]; cbn [bind]; [|intro; reflexivity].
    destruct (parse_opcode f) as [op|].
    - pose proof (transports_precharge op d st) as P. cbv beta in P.
      destruct (precharge fl st op) as [st1|e] eqn:E1; cbn [bind].
      + destruct P as [L1 P]. rewrite P. cbn [bind].
        destruct (rest c) as [c1|e]; cbn [bind]; [|intro; reflexivity].
        destruct (parse_args fl c1 op) as [cva|e]; cbn [bind]; [|intro; reflexivity].
        unfold visit. pose proof (transports_apply cva d st1) as A. cbv beta in A.
        destruct (apply_condition valid_key K fl st1 cva) as [st2|e].
        * destruct A. split; [lia|assumption].
        * assumption.
      + intro ne. rewrite (P ne). reflexivity.
    - destruct (f_no_unknown fl); [intro; reflexivity|].
      destruct (f_cost_conds fl); [exact (transports_charge _ d st)|].
      split; [lia|reflexivity].
  Qed.

  Lemma transports_conditions_loop iter : transports (conditions_loop valid_key K fl VEmpty iter).
  Proof.
    induction iter as [b|c _ nxt IH]; intros d st; cbn [conditions_loop].
    - destruct b; [split; [lia|reflexivity]|intro; reflexivity].
    - exact (transports_bind _ _ (transports_process_condition c) IH d st).
  Qed.

  Variable H : bytes -> bytes.

  Lemma psp_T ret st parent ph amount conds m c d :
    match process_single_spend valid_key H K fl VEmpty ret st parent ph amount conds m c return Prop with
    | Ok (r, s, l) =>
        (l <= m) /\ process_single_spend valid_key H K fl VEmpty (erase_b ret) st parent ph amount conds (m + d) 0
        = Ok (erase_b r, s, l + d)
    | Err e =>
        e <> CostExceeded ->
        process_single_spend valid_key H K fl VEmpty (erase_b ret) st parent ph amount conds (m + d) 0 = Err e
    end.
  Proof.
    unfold process_single_spend.
    destruct (sanitize_hash parent 32 InvalidParentId) as [pa|e]; cbn [bind]; [|intro; reflexivity].
    destruct (sanitize_hash ph 32 InvalidPuzzleHash) as [pz|e]; cbn [bind]; [|intro; reflexivity].
    destruct (parse_amount amount InvalidCoinAmount) as [am|e]; cbn [bind]; [|intro; reflexivity].
    destruct (atom_of amount InvalidCoinAmount) as [ab|e]; cbn [bind]; [|intro; reflexivity].
    destruct (lookup_idx (H (pa ++ pz ++ ab)) (s_spent_coins st)); [intro; reflexivity|].
    match goal with |- context [if f_cost_conds fl then charge ?s0 SPEND_COST else Ok ?s0] => set (st0 := s0) end.
    match goal with |- context [if f_cost_conds fl then charge ?s0 SPEND_COST else Ok ?s0] =>
      replace s0 with (T d st0) by (unfold T, st0; cbn; rewrite map_length; reflexivity) end.
    assert (P1 : transports (fun s => if f_cost_conds fl then charge s SPEND_COST else Ok s)).
    { intros d' s'. destruct (f_cost_conds fl); [exact (transports_charge _ d' s')|split; [lia|reflexivity]]. }
    specialize (P1 d st0). cbv beta in P1.
    destruct (if f_cost_conds fl then charge st0 SPEND_COST else Ok st0) as [st1|e] eqn:E1; cbn [bind].
    - destruct P1 as [L1 P1]. rewrite P1. cbn [bind].
      replace (with_spend (T d st1) (l_spend (T d st1))) with (T d (with_spend st1 (l_spend st1))) by reflexivity.
      pose proof (transports_conditions_loop conds d (with_spend st1 (l_spend st1))) as P2.
      destruct (conditions_loop valid_key K fl VEmpty conds (with_spend st1 (l_spend st1))) as [st2|e]; cbn [bind].
      + destruct P2 as [L2 P2]. rewrite P2. cbn [bind]. split.
        * cbn in L2. unfold st0 in L1. cbn in L1. lia.
        * reflexivity.
      + intro ne. rewrite (P2 ne). reflexivity.
    - intro ne. rewrite (P1 ne). reflexivity.
  Qed.
End S.

(* ---- bundle-level validation does not look at execution costs ---- *)
Lemma forallb_ext' {A} (f g : A -> bool) l : (forall x, f x = g x) -> forallb f l = forallb g l.
Proof. intro E. induction l; cbn; [reflexivity|]. rewrite E, IHl. reflexivity. Qed.
Lemma existsb_ext' {A} (f g : A -> bool) l : (forall x, f x = g x) -> existsb f l = existsb g l.
Proof. intro E. induction l; cbn; [reflexivity|]. rewrite E, IHl. reflexivity. Qed.

Lemma is_ephemeral_erase spends spent idx :
  is_ephemeral (map erase_s spends) spent idx = is_ephemeral spends spent idx.
Proof.
  unfold is_ephemeral. rewrite nth_error_map.
  destruct (nth_error spends idx) as [s|]; cbn; [|reflexivity].
  destruct (lookup_idx (sp_parent s) spent) as [pidx|]; [|reflexivity].
  rewrite nth_error_map. destruct (nth_error spends pidx); reflexivity.
Qed.

Lemma validate_conditions_erase H ret spends state :
  validate_conditions H (erase_b ret) (map erase_s spends) state = validate_conditions H ret spends state.
Proof.
  unfold validate_conditions. cbn [erase_b b_removal b_addition b_reserve_fee b_before_height_absolute
    b_height_absolute b_before_seconds_absolute b_seconds_absolute].
  rewrite (forallb_ext' _ _ (s_assert_ephemeral state) (is_ephemeral_erase spends (s_spent_coins state))).
  rewrite (existsb_ext' _ _ (s_assert_not_ephemeral state) (is_ephemeral_erase spends (s_spent_coins state))).
  reflexivity.
Qed.

Lemma map_fast_rev {A B} (f : A -> B) l : map f (fast_rev l) = fast_rev (map f l).
Proof.
  unfold fast_rev. rewrite !rev_append_rev, !app_nil_r. apply map_rev.
Qed.
