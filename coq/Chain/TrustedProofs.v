(* Chain/TrustedProofs.v — C09: the trusted-block helpers against the validated conditions. *)
From Coq Require Import Lia ZArith.
From ChiaV.Base Require Import Bytes Sha256.
From ChiaV.Clvm Require Import Sexp Ints IntsProofs LadderProofs TreeHash.
From ChiaV.Gen Require Import Opcodes Ladders ChainConsts.
From ChiaV.Cond Require Import Model.
From ChiaV.Chain Require Import Backref Rom Generator GeneratorSpec CondBudgetProofs GenToy GeneratorProofs Trusted TrustedSpec.
Open Scope N_scope.



Definition created_of (cva : condition) : list new_coin :=
  match cva with
  | CCreateCoin ph a h => [{| nc_ph := ph; nc_amount := a; nc_hint := h |}]
  | _ => []
  end.

(* what a step may change: never the identity of the spend, the spent-coin table or the finished spends;
   the created-coin list only grows, by the coins in [cs] *)
Definition step_inv (cs : list new_coin) (st st' : lstate) : Prop :=
  sp_parent (l_spend st') = sp_parent (l_spend st) /\
  sp_amount (l_spend st') = sp_amount (l_spend st) /\
  sp_ph (l_spend st') = sp_ph (l_spend st) /\
  sp_coin_id (l_spend st') = sp_coin_id (l_spend st) /\
  sp_create_coin (l_spend st') = sp_create_coin (l_spend st) ++ cs /\
  s_spent_coins (l_state st') = s_spent_coins (l_state st) /\
  b_spends_rev (l_ret st') = b_spends_rev (l_ret st).

Lemma step_inv_refl st : step_inv [] st st.
Proof. unfold step_inv. rewrite app_nil_r. repeat split. Qed.

Lemma step_inv_trans a b st1 st2 st3 : step_inv a st1 st2 -> step_inv b st2 st3 -> step_inv (a ++ b) st1 st3.
Proof.
  unfold step_inv. intros (A1 & A2 & A3 & A4 & A5 & A6 & A7) (B1 & B2 & B3 & B4 & B5 & B6 & B7).
  repeat split; try congruence. rewrite B5, A5, app_assoc. reflexivity.
Qed.

Ltac step1 :=
  match goal with
  | |- context [if ?c then _ else _] => destruct c
  | |- context [match ?c with Some _ => _ | None => _ end] => destruct c
  | |- context [bind (check_agg_sig_unsafe_message ?k ?m) _] => destruct (check_agg_sig_unsafe_message k m) as [[]|]
  | |- context [bind (spend_id_from_self ?a ?b ?c ?d ?e) _] => destruct (spend_id_from_self a b c d e)
  end.

Section S.
  Variable valid_key : bytes -> bool.
  Variable K : consts.
  Variable fl : cflags.

  Lemma charge_inv st c st' : charge st c = Ok st' -> step_inv [] st st'.
  Proof.
    unfold charge. destruct (l_max_cost st <? c); [discriminate|]. intro E; inversion E; subst.
    unfold step_inv; cbn. rewrite app_nil_r. repeat split.
  Qed.

  Lemma apply_inv st cva st' : apply_condition valid_key K fl st cva = Ok st' -> step_inv (created_of cva) st st'.
  Proof.
    destruct cva; try (apply charge_inv);
      unfold apply_condition, decrement, push_pair, mark_not_ephemeral, with_ret, with_spend, with_state;
      cbn; repeat (step1; cbn); intro E; try discriminate E; inversion E; subst; clear E;
      unfold step_inv; cbn; rewrite ?app_nil_r; repeat split.
  Qed.

  Lemma precharge_inv st op st' : precharge fl st op = Ok st' -> step_inv [] st st'.
  Proof.
    unfold precharge.
    repeat match goal with |- context [if ?c then _ else _] => destruct c end;
      first [apply charge_inv | intro E; inversion E; apply step_inv_refl].
  Qed.

  Ltac brute E :=
    repeat match type of E with
           | context [match ?x with _ => _ end] => destruct x; try discriminate E
           end;
    try (inversion E; subst; reflexivity).

  Lemma parse_args_not_cc c op cva : op <> CREATE_COIN -> parse_args fl c op = Ok cva -> created_of cva = [].
  Proof.
    intros NE. unfold parse_args.
    destruct (is_agg_sig op); [intro E; unfold bind in E; brute E|].
    destruct (op =? CREATE_COIN) eqn:EC; [apply N.eqb_eq in EC; contradiction|].
    repeat match goal with
           | |- (if ?c then _ else _) = _ -> _ =>
               destruct c; [intro E; unfold lock_arg, hash_arg, msg_arg, maybe_check_args_terminator, bind in E; brute E|]
           end.
    intro E; discriminate E.
  Qed.

  Lemma parse_args_cc c1 cva : parse_args fl c1 CREATE_COIN = Ok cva ->
    exists pht amount_t c2 ph amt,
      c1 = Pair pht (Pair amount_t c2) /\ bytes32_of pht = Some ph /\
      parse_amount amount_t InvalidCoinAmount = Ok amt /\
      cva = CCreateCoin ph amt (hint_bytes (ar_hint c2)).
  Proof.
    unfold parse_args. change (is_agg_sig CREATE_COIN) with false. rewrite N.eqb_refl. cbv beta iota.
    destruct c1 as [|pht r1]; [intro E; discriminate E|]. cbn [first rest bind].
    unfold sanitize_hash at 1. destruct pht as [pb|]; cbn [atom_of bind]; [|intro E; discriminate E].
    destruct (Nat.eqb (length pb) 32) eqn:LEN; cbn [bind]; [|intro E; discriminate E].
    destruct r1 as [|amount_t c2]; cbn [first rest bind]; [intro E; discriminate E|].
    destruct (sanitize_uint_node amount_t 8 InvalidCoinAmount) as [sa|] eqn:SU; cbn [bind]; [|intro E; discriminate E].
    destruct sa as [amt| | |]; try (intro E; discriminate E).
    intro E. exists (Atom pb), amount_t, c2, pb, amt.
    split; [reflexivity|]. split; [cbn; rewrite LEN; reflexivity|].
    split; [unfold parse_amount; rewrite SU; reflexivity|].
    destruct c2 as [cb|params tl]; cbn [bind] in E.
    - destruct (if f_strict fl then check_nil (Atom cb) else Ok tt) as [[]|]; cbn [bind] in E; [|discriminate E].
      inversion E. reflexivity.
    - destruct (maybe_check_args_terminator fl (Pair params tl)) as [[]|]; cbn [bind] in E; [|discriminate E].
      destruct params as [|[hb|] ptl]; cbn [ar_hint hint_bytes]; try (inversion E; reflexivity).
      destruct hb as [|b0 bt].
      + cbn in E |- *. inversion E; reflexivity.
      + change (Nat.eqb (length (b0 :: bt)) 0) with false. cbn [negb andb].
        destruct (Nat.leb (length (b0 :: bt)) 32); inversion E; reflexivity.
  Qed.

  Lemma create_coin_whitelisted : existsb (N.eqb CREATE_COIN) opcode_whitelist = true.
  Proof. vm_compute. reflexivity. Qed.

  (* the one-byte atom 51 is the only operator atom that parses to CREATE_COIN *)
  Lemma parse_opcode_cc f op : parse_opcode f = Some op ->
    (op = CREATE_COIN <-> f = Atom [n2b CREATE_COIN]).
  Proof.
    unfold parse_opcode. destruct f as [[|b0 [|b1 [|]]]|]; try discriminate.
    - destruct (existsb (N.eqb (b2n b0)) opcode_whitelist); [|discriminate].
      intro E; inversion E; subst. split.
      + intro X. f_equal. f_equal. apply b2n_inj. rewrite X. reflexivity.
      + intro X. inversion X. reflexivity.
    - destruct (b2n b0 =? 0) eqn:Z; [discriminate|]. intro E; inversion E; subst. apply N.eqb_neq in Z.
      split; [|discriminate]. intro X. exfalso. unfold CREATE_COIN in X.
      pose proof (b2n_lt b1). assert (b2n b0 >= 1) by lia. nia.
  Qed.

  Definition news_of (r : option (bytes * N * option bytes)) : list new_coin :=
    match r with
    | Some (ph, amt, h) => [{| nc_ph := ph; nc_amount := amt; nc_hint := hint_bytes h |}]
    | None => []
    end.

  Lemma cond_link c st st' : process_condition valid_key K fl VEmpty c st = Ok st' ->
    exists r, ar_condition c = Ok r /\ step_inv (news_of r) st st'.
  Proof.
    unfold process_condition, ar_condition.
    destruct (first c) as [f|] eqn:F; cbn [bind]; [|intro E; discriminate E].
    destruct (parse_opcode f) as [op|] eqn:PO.
    - destruct (precharge fl st op) as [st1|] eqn:PC; cbn [bind]; [|intro E; discriminate E].
      destruct (rest c) as [c1|] eqn:R; cbn [bind]; [|intro E; discriminate E].
      destruct (parse_args fl c1 op) as [cva|] eqn:PA; cbn [bind]; [|intro E; discriminate E].
      unfold visit. intro E. apply apply_inv in E. apply precharge_inv in PC.
      pose proof (step_inv_trans _ _ _ _ _ PC E) as SI. cbn [app] in SI.
      pose proof (parse_opcode_cc f op PO) as CC.
      destruct f as [opb|]; [|discriminate PO].
      destruct (bytes_eqb opb [n2b CREATE_COIN]) eqn:BE; cbn [negb].
      + apply bytes_eqb_eq in BE. subst opb. assert (op = CREATE_COIN) as -> by (apply CC; reflexivity).
        destruct (parse_args_cc c1 cva PA) as (pht & amount_t & c2 & ph & amt & -> & B32 & PAm & ->).
        rewrite B32, PAm. cbn [bind]. eexists. split; [reflexivity|]. exact SI.
      + assert (op <> CREATE_COIN) as NE.
        { intro X. apply CC in X. inversion X; subst. rewrite bytes_eqb_refl in BE. discriminate BE. }
        rewrite (parse_args_not_cc c1 op cva NE PA) in SI.
        exists None. split; [reflexivity|exact SI].
    - (* unknown condition *)
      intro E. exists None. split.
      + destruct f as [opb|]; [|reflexivity].
        destruct (bytes_eqb opb [n2b CREATE_COIN]) eqn:BE; [|reflexivity].
        apply bytes_eqb_eq in BE. subst opb. exfalso.
        unfold parse_opcode in PO. change (b2n (n2b CREATE_COIN)) with CREATE_COIN in PO.
        rewrite create_coin_whitelisted in PO. discriminate PO.
      + destruct (f_no_unknown fl); [discriminate E|].
        destruct (f_cost_conds fl); [exact (charge_inv _ _ _ E)|].
        inversion E; subst. apply step_inv_refl.
  Qed.

  Lemma loop_link conds : forall st st', conditions_loop valid_key K fl VEmpty conds st = Ok st' ->
    exists rs, step_inv (concat (map news_of rs)) st st' /\
      forall sid acc, ar_conditions conds sid acc = Ok (fold_left (fun a r => ar_push sid r a) rs acc).
  Proof.
    induction conds as [b|c _ nxt IH]; intros st st' E; cbn [conditions_loop] in E.
    - destruct b; [|discriminate E]. inversion E; subst. exists []. split; [apply step_inv_refl|]. reflexivity.
    - destruct (process_condition valid_key K fl VEmpty c st) as [st1|] eqn:PC; cbn [bind] in E; [|discriminate E].
      destruct (cond_link _ _ _ PC) as (r & AR & SI1).
      destruct (IH _ _ E) as (rs & SI2 & ARS).
      exists (r :: rs). split.
      + cbn [map concat]. exact (step_inv_trans _ _ _ _ _ SI1 SI2).
      + intros sid acc. cbn [ar_conditions]. rewrite AR. cbn [bind fold_left]. apply ARS.
  Qed.

  Variable H : bytes -> bytes.

  Lemma psp_link ret st parent_t ph_t amount_t conds m c r s l :
    process_single_spend valid_key H K fl VEmpty ret st parent_t ph_t amount_t conds m c = Ok (r, s, l) ->
    exists parent ph amt ab sp rs,
      sanitize_hash parent_t 32 InvalidParentId = Ok parent /\
      sanitize_hash ph_t 32 InvalidPuzzleHash = Ok ph /\
      parse_amount amount_t InvalidCoinAmount = Ok amt /\
      atom_of amount_t InvalidCoinAmount = Ok ab /\
      b_spends_rev r = sp :: b_spends_rev ret /\
      sp_parent sp = parent /\ sp_ph sp = ph /\ sp_amount sp = amt /\ sp_coin_id sp = H (parent ++ ph ++ ab) /\
      sp_create_coin sp = concat (map news_of rs) /\
      (forall sid acc, ar_conditions conds sid acc = Ok (fold_left (fun a x => ar_push sid x a) rs acc)) /\
      lookup_idx (sp_coin_id sp) (s_spent_coins st) = None /\
      s_spent_coins s = (sp_coin_id sp, length (b_spends_rev ret)) :: s_spent_coins st.
  Proof.
    unfold process_single_spend.
    destruct (sanitize_hash parent_t 32 InvalidParentId) as [pa|] eqn:SP; cbn [bind]; [|intro E; discriminate E].
    destruct (sanitize_hash ph_t 32 InvalidPuzzleHash) as [pz|] eqn:SZ; cbn [bind]; [|intro E; discriminate E].
    destruct (parse_amount amount_t InvalidCoinAmount) as [am|] eqn:PAm; cbn [bind]; [|intro E; discriminate E].
    destruct (atom_of amount_t InvalidCoinAmount) as [ab|] eqn:AO; cbn [bind]; [|intro E; discriminate E].
    destruct (lookup_idx (H (pa ++ pz ++ ab)) (s_spent_coins st)) eqn:LK; [intro E; discriminate E|].
    match goal with |- context [if f_cost_conds fl then charge ?s0 SPEND_COST else Ok ?s0] => set (st0 := s0) end.
    destruct (if f_cost_conds fl then charge st0 SPEND_COST else Ok st0) as [st1|] eqn:E1; cbn [bind]; [|intro E; discriminate E].
    assert (SI1 : step_inv [] st0 st1).
    { destruct (f_cost_conds fl); [exact (charge_inv _ _ _ E1)|]. inversion E1; subst. apply step_inv_refl. }
    destruct (conditions_loop valid_key K fl VEmpty conds (with_spend st1 (l_spend st1))) as [st2|] eqn:CL; cbn [bind];
      [|intro E; discriminate E].
    destruct (loop_link conds _ _ CL) as (rs & SI2 & ARS).
    intro E. inversion E; subst; clear E.
    assert (SI : step_inv ([] ++ concat (map news_of rs)) st0 st2).
    { eapply step_inv_trans; [exact SI1|]. exact SI2. }
    cbn [app] in SI. destruct SI as (A1 & A2 & A3 & A4 & A5 & A6 & A7).
    exists pa, pz, am, ab, (l_spend st2), rs.
    unfold st0 in *. cbn in A1, A2, A3, A4, A5, A6, A7. cbn [post_spend b_with b_spends_rev].
    repeat split; try assumption; try congruence.
  Qed.
End S.


Definition pushes_of (sid : bytes) (rs : list (option (bytes * N * option bytes))) : list (coin * option bytes) :=
  concat (map (fun r => match r with
                        | Some (ph, amt, h) => [({| co_parent := sid; co_ph := ph; co_amount := amt |}, h)]
                        | None => []
                        end) rs).

Lemma fold_push sid rs : forall acc, fold_left (fun a x => ar_push sid x a) rs acc = rev (pushes_of sid rs) ++ acc.
Proof.
  induction rs as [|r rs IH]; intro acc; [reflexivity|].
  cbn [fold_left]. rewrite IH.
  change (pushes_of sid (r :: rs)) with
    ((match r with
      | Some (ph, amt, h) => [({| co_parent := sid; co_ph := ph; co_amount := amt |}, h)]
      | None => []
      end) ++ pushes_of sid rs).
  destruct r as [[[ph amt] h]|]; cbn [ar_push app].
  - cbn [rev]. rewrite <- app_assoc. reflexivity.
  - reflexivity.
Qed.

Lemma pushes_group sid rs : map to_nc (pushes_of sid rs) = concat (map news_of rs) /\
  Forall (fun e => co_parent (fst e) = sid) (pushes_of sid rs).
Proof.
  induction rs as [|r rs [IH1 IH2]]; [split; [reflexivity|constructor]|].
  change (pushes_of sid (r :: rs)) with
    ((match r with
      | Some (ph, amt, h) => [({| co_parent := sid; co_ph := ph; co_amount := amt |}, h)]
      | None => []
      end) ++ pushes_of sid rs).
  cbn [map concat].
  destruct r as [[[ph amt] h]|]; cbn [app map news_of].
  - split; [cbn; f_equal; exact IH1|constructor; [reflexivity|exact IH2]].
  - split; assumption.
Qed.

Lemma sanitize_hash_32 t e b : sanitize_hash t 32 e = Ok b -> bytes32_of t = Some b /\ t = Atom b.
Proof.
  unfold sanitize_hash, bytes32_of. destruct t as [x|]; cbn; [|discriminate].
  destruct (Nat.eqb (length x) 32); [|discriminate]. intro E; inversion E. split; reflexivity.
Qed.

Lemma amount_bytes t ab amt :
  atom_of t InvalidCoinAmount = Ok ab -> parse_amount t InvalidCoinAmount = Ok amt -> coin_amount_bytes amt = ab.
Proof.
  unfold parse_amount, sanitize_uint_node. destruct t as [x|]; cbn; [|discriminate].
  intro E; inversion E; subst. destruct (sanitize_uint ab 8) eqn:SU; cbn; try discriminate.
  intro E2; inversion E2; subst. apply sanitize_uint_ok_iff in SU. destruct SU as [-> L].
  apply coin_amount_bytes_canon. change (256 ^ N.of_nat 8) with (2 ^ 64) in L. exact L.
Qed.

Section L.
  Variable run : sexp -> sexp -> N -> res (N * sexp).
  Variable valid_key : bytes -> bool.
  Variable H : bytes -> bytes.
  Variable K : consts.
  Variable fl : cflags.
  Hypothesis run_exact : run_exact_hyp run.

  Lemma run_program_more p a m ma c r : run_program run p a m = Ok (c, r) -> c <= m -> m <= ma ->
    run_program run p a ma = Ok (c, r).
  Proof.
    unfold run_program. intros E L1 L2. rewrite (run_exact _ _ _ _ _ E).
    assert (c <=? (if ma =? 0 then COST_MAX else ma) = true) as ->; [|reflexivity].
    apply N.leb_le. destruct (ma =? 0) eqn:Z; [apply N.eqb_eq in Z; unfold COST_MAX; lia|lia].
  Qed.

  Lemma ar_native : forall iter ret st m ex sl r s l e term,
    native_loop run valid_key H K iter ret st m ex sl fl = Ok (r, s, l, e, term) ->
    forall ma adds rems, m <= ma ->
    exists news groups,
      b_spends_rev r = rev news ++ b_spends_rev ret /\ Forall2 group_ok news groups /\
      ar_loop run H iter ma adds rems = Ok (rev (concat groups) ++ adds, rev (map removal_of news) ++ rems).
  Proof.
    induction iter as [b|spend _ tl IH]; intros ret st m ex sl r s l e term E ma adds rems LM.
    - cbn in E. inversion E; subst. exists [], []. cbn. repeat split; constructor.
    - cbn [native_loop] in E.
      assert (E' : ('(parent_id, puzzle, amount, solution, _) <- extract_5 spend ;;
                    '(clvm_cost, conditions) <- run_program run puzzle solution m ;;
                    cost_left1 <- subtract_cost m clvm_cost ;;
                    '(ret1, state1, cost_left2) <-
                      process_single_spend valid_key H K fl VEmpty ret st parent_id (Atom (th H puzzle)) amount conditions
                                           cost_left1 clvm_cost ;;
                    native_loop run valid_key H K tl ret1 state1 cost_left2 (ex + clvm_cost) (option_map N.pred sl) fl)
                   = Ok (r, s, l, e, term)).
      { destruct sl as [[|]|]; [discriminate E|exact E|exact E]. }
      clear E.
      destruct spend as [|p [|pz [|am [|sol ext]]]]; try discriminate E'.
      cbn [extract_5 bind] in E'.
      destruct (run_program run pz sol m) as [[c conds]|] eqn:RP; cbn [bind] in E'; [|discriminate E'].
      unfold subtract_cost in E'. destruct (m <? c) eqn:LT; cbn [bind] in E'; [discriminate E'|]. apply N.ltb_ge in LT.
      destruct (process_single_spend valid_key H K fl VEmpty ret st p (Atom (th H pz)) am conds (m - c) c)
        as [[[r1 s1] l1]|] eqn:PSP; cbn [bind] in E'; [|discriminate E'].
      pose proof (psp_T valid_key K fl H ret st p (Atom (th H pz)) am conds (m - c) c 0) as PT. rewrite PSP in PT.
      destruct PT as [Ll _].
      destruct (psp_link valid_key K fl H _ _ _ _ _ _ _ _ _ _ _ PSP)
        as (parent & ph & amt & ab & sp & rs & SP & SZ & PAm & AO & BS & F1 & F2 & F3 & F4 & F5 & ARC & _ & _).
      destruct (sanitize_hash_32 _ _ _ SP) as [B32 ->].
      destruct (sanitize_hash_32 _ _ _ SZ) as [_ PH]. injection PH as PH'. subst ph.
      assert (ma - c >= l1) as LM2 by lia.
      destruct (IH _ _ _ _ _ _ _ _ _ _ E' (ma - c)
                  (rev (pushes_of (sp_coin_id sp) rs) ++ adds) (removal_of sp :: rems)) as (news & groups & BS2 & FG & AR);
        [lia|].
      exists (sp :: news), (pushes_of (sp_coin_id sp) rs :: groups).
      split; [|split].
      + rewrite BS2, BS. cbn [rev]. rewrite <- app_assoc. reflexivity.
      + constructor; [|exact FG]. unfold group_ok. destruct (pushes_group (sp_coin_id sp) rs) as [G1 G2].
        split; [rewrite G1; symmetry; exact F5|exact G2].
      + cbn [ar_loop]. rewrite B32, PAm. cbn [bind].
        rewrite (run_program_more _ _ _ _ _ _ RP LT LM). cbn [bind].
        unfold subtract_cost. assert (ma <? c = false) as -> by (apply N.ltb_ge; lia). cbn [bind].
        assert (CID : coin_id H {| co_parent := parent; co_ph := th H pz; co_amount := amt |} = sp_coin_id sp).
        { unfold coin_id. cbn. rewrite F4, PH'. rewrite (amount_bytes _ _ _ AO PAm). reflexivity. }
        rewrite CID. rewrite ARC, fold_push. cbn [bind].
        assert (RO : (sp_coin_id sp, {| co_parent := parent; co_ph := th H pz; co_amount := amt |}) = removal_of sp).
        { unfold removal_of. rewrite F1, F3, PH'. reflexivity. }
        rewrite RO, AR. cbn [map concat rev]. rewrite rev_app_distr, <- !app_assoc. reflexivity.
  Qed.
End L.

Lemma fast_rev_rev {A} (l : list A) : fast_rev l = rev l.
Proof. unfold fast_rev. rewrite rev_append_rev, app_nil_r. reflexivity. Qed.

Section Top.
  Variable run : sexp -> sexp -> N -> res (N * sexp).
  Variable valid_key : bytes -> bool.
  Variable sig_ok : list (bytes * bytes) -> bool.
  Variable H : bytes -> bytes.
  Variable K : consts.
  Hypothesis run_exact : run_exact_hyp run.

  Theorem ar_correct program refs max_cost gf b spends pairs :
    run_block_generator2 run valid_key sig_ok H K program refs max_cost gf = Ok (b, spends, pairs) ->
    max_cost <= MAX_BLOCK_COST_CLVM ->
    exists groups,
      additions_and_removals run H program refs gf = Ok (concat groups, map removal_of spends) /\
      Forall2 group_ok spends groups.
  Proof.
    unfold run_block_generator2, additions_and_removals. intros E LM.
    destruct (check_generator_quote program gf) as [[]|]; cbn [bind] in E; [|discriminate E].
    destruct (deser_program program) as [prog|]; cbn [bind] in *; [|discriminate E].
    unfold subtract_cost at 1 in E.
    destruct (max_cost <? base_cost program prog gf) eqn:LB; cbn [bind] in E; [discriminate E|]. apply N.ltb_ge in LB.
    destruct (check_generator_node prog gf) as [[]|]; cbn [bind] in E; [|discriminate E].
    destruct (setup_generator_args refs gf) as [args|]; cbn [bind] in *; [|discriminate E].
    set (clN := max_cost - base_cost program prog gf) in *.
    destruct (run_program run prog args clN) as [[c0 out0]|] eqn:RP; cbn [bind] in E; [|discriminate E].
    unfold subtract_cost at 1 in E. destruct (clN <? c0) eqn:LT; cbn [bind] in E; [discriminate E|]. apply N.ltb_ge in LT.
    assert (LclN : clN <= MAX_BLOCK_COST_CLVM) by (unfold clN; lia).
    rewrite (run_program_more run run_exact _ _ _ _ _ _ RP LT LclN). cbn [bind].
    unfold subtract_cost at 1. assert (MAX_BLOCK_COST_CLVM <? c0 = false) as -> by (apply N.ltb_ge; lia). cbn [bind].
    destruct (first out0) as [all_spends|]; cbn [bind] in *; [|discriminate E].
    destruct (prepass all_spends) as [[]|]; cbn [bind] in *; [|discriminate E].
    destruct (native_loop run valid_key H K all_spends empty_bundle empty_state (clN - c0) c0
                (if f_limit_spends (g_cond gf) then Some MAX_SPENDS_PER_BLOCK else None) (g_cond gf))
      as [[[[[ret state] cl2] exec] term]|] eqn:NLp; cbn [bind] in E; [|discriminate E].
    destruct term as [[|]|]; try discriminate E.
    destruct (validate_conditions H ret (fast_rev (b_spends_rev ret)) state) as [[]|]; cbn [bind] in E; [|discriminate E].
    destruct (validate_signature sig_ok (g_cond gf) (fast_rev (s_pkm_pairs_rev state))) as [[]|]; cbn [bind] in E; [|discriminate E].
    inversion E; subst; clear E.
    destruct (ar_native run valid_key H K (g_cond gf) run_exact _ _ _ _ _ _ _ _ _ _ _ NLp (MAX_BLOCK_COST_CLVM - c0) [] [])
      as (news & groups & BS & FG & AR); [lia|].
    rewrite AR. cbn [bind]. exists groups. cbn [empty_bundle b_spends_rev] in BS.
    rewrite !app_nil_r in *. rewrite BS. rewrite !fast_rev_rev, !rev_involutive. split; [reflexivity|exact FG].
  Qed.
End Top.


Lemma lookup_idx_cons k v x l i : lookup_idx x l = Some i -> exists j, lookup_idx x ((k, v) :: l) = Some j.
Proof. intro E. cbn. destruct (bytes_eqb x k); eauto. Qed.

Lemma lookup_idx_head k v l : exists j, lookup_idx k ((k, v) :: l) = Some j.
Proof. cbn. rewrite bytes_eqb_refl. eauto. Qed.

Section LK.
  Variable run : sexp -> sexp -> N -> res (N * sexp).
  Variable valid_key : bytes -> bool.
  Variable H : bytes -> bytes.
  Variable K : consts.
  Variable fl : cflags.

  (* one accepted step of the native loop, as facts *)
  Lemma native_step sp tl ret st m ex sl r s l e term :
    native_loop run valid_key H K (Pair sp tl) ret st m ex sl fl = Ok (r, s, l, e, term) ->
    exists p pz am sol ext parent amt ab r1 s1 l1 ex1,
      sp = Pair p (Pair pz (Pair am (Pair sol ext))) /\
      p = Atom parent /\ length parent = 32%nat /\
      parse_amount am InvalidCoinAmount = Ok amt /\ atom_of am InvalidCoinAmount = Ok ab /\
      lookup_idx (H (parent ++ th H pz ++ ab)) (s_spent_coins st) = None /\
      (exists idx, s_spent_coins s1 = (H (parent ++ th H pz ++ ab), idx) :: s_spent_coins st) /\
      (exists spd, b_spends_rev r1 = spd :: b_spends_rev ret /\ sp_parent spd = parent /\ sp_ph spd = th H pz /\
                   sp_amount spd = amt) /\
      native_loop run valid_key H K tl r1 s1 l1 ex1 (option_map N.pred sl) fl = Ok (r, s, l, e, term).
  Proof.
    intro E. cbn [native_loop] in E.
    assert (E' : ('(parent_id, puzzle, amount, solution, _) <- extract_5 sp ;;
                  '(clvm_cost, conditions) <- run_program run puzzle solution m ;;
                  cost_left1 <- subtract_cost m clvm_cost ;;
                  '(ret1, state1, cost_left2) <-
                    process_single_spend valid_key H K fl VEmpty ret st parent_id (Atom (th H puzzle)) amount conditions
                                         cost_left1 clvm_cost ;;
                  native_loop run valid_key H K tl ret1 state1 cost_left2 (ex + clvm_cost) (option_map N.pred sl) fl)
                 = Ok (r, s, l, e, term)).
    { destruct sl as [[|]|]; [discriminate E|exact E|exact E]. }
    clear E.
    destruct sp as [|p [|pz [|am [|sol ext]]]]; try discriminate E'.
    cbn [extract_5 bind] in E'.
    destruct (run_program run pz sol m) as [[c conds]|]; cbn [bind] in E'; [|discriminate E'].
    destruct (subtract_cost m c) as [m1|]; cbn [bind] in E'; [|discriminate E'].
    destruct (process_single_spend valid_key H K fl VEmpty ret st p (Atom (th H pz)) am conds m1 c)
      as [[[r1 s1] l1]|] eqn:PSP; cbn [bind] in E'; [|discriminate E'].
    destruct (psp_link valid_key K fl H _ _ _ _ _ _ _ _ _ _ _ PSP)
      as (parent & ph & amt & ab & spd & rs & SP & SZ & PAm & AO & BS & F1 & F2 & F3 & F4 & F5 & ARC & LK & SC).
    destruct (sanitize_hash_32 _ _ _ SP) as [B32 ->].
    assert (LEN : length parent = 32%nat).
    { cbn in B32. destruct (Nat.eqb (length parent) 32) eqn:LE; [apply Nat.eqb_eq; exact LE|discriminate B32]. }
    destruct (sanitize_hash_32 _ _ _ SZ) as [_ PH]. injection PH as PH'.
    exists (Atom parent), pz, am, sol, ext, parent, amt, ab, r1, s1, l1, (ex + c).
    rewrite F4 in LK, SC. rewrite <- PH' in LK, SC.
    repeat split; try assumption; try reflexivity; [eexists; exact SC|].
    exists spd. rewrite PH'. repeat split; assumption.
  Qed.

  Lemma triple_id f parent amt ab am pz :
    parse_amount am InvalidCoinAmount = Ok amt -> atom_of am InvalidCoinAmount = Ok ab ->
    parent = co_parent f -> amt = co_amount f -> th H pz = co_ph f ->
    H (parent ++ th H pz ++ ab) = coin_id H f.
  Proof.
    intros PA AO -> -> PH. unfold coin_id. rewrite PH. rewrite (amount_bytes _ _ _ AO PA). reflexivity.
  Qed.

  (* a coin that is already spent cannot be spent again by an accepted remainder of the list *)
  Lemma spent_blocks : forall iter ret st m ex sl r s l e term,
    native_loop run valid_key H K iter ret st m ex sl fl = Ok (r, s, l, e, term) ->
    forall f i, lookup_idx (coin_id H f) (s_spent_coins st) = Some i ->
    forall t, In t (spend_tuples iter) -> ~ matches H f t.
  Proof.
    induction iter as [b|sp _ tl IH]; intros ret st m ex sl r s l e term E f i LK t IN; [destruct IN|].
    destruct (native_step _ _ _ _ _ _ _ _ _ _ _ _ E)
      as (p & pz & am & sol & ext & parent & amt & ab & r1 & s1 & l1 & ex1 & -> & -> & _ & PA & AO & LN & (idx & SC) & _ & E2).
    cbn [spend_tuples In] in IN. destruct IN as [<-|IN].
    - intros (P1 & P2 & P3). inversion P1; subst parent. rewrite PA in P2. inversion P2; subst amt.
      rewrite (triple_id f _ _ _ _ _ PA AO eq_refl eq_refl P3) in LN. congruence.
    - destruct (lookup_idx_cons (H (parent ++ th H pz ++ ab)) idx _ _ _ LK) as [j LK2]. rewrite <- SC in LK2.
      exact (IH _ _ _ _ _ _ _ _ _ _ E2 f j LK2 t IN).
  Qed.

  (* lookup of any spent coin of an accepted list without spend-level extras returns its own puzzle and solution *)
  Lemma lookup_native : forall iter ret st m ex sl r s l e term,
    native_loop run valid_key H K iter ret st m ex sl fl = Ok (r, s, l, e, term) ->
    forall f p pz am sol, In (p, pz, am, sol) (spend_tuples iter) -> matches H f (p, pz, am, sol) ->
    lookup_loop H iter f = Ok (pz, sol).
  Proof.
    induction iter as [b|sp _ tl IH]; intros ret st m ex sl r s l e term E f p0 pz0 am0 sol0 IN M; [destruct IN|].
    destruct (native_step _ _ _ _ _ _ _ _ _ _ _ _ E)
      as (p & pz & am & sol & ext & parent & amt & ab & r1 & s1 & l1 & ex1 & -> & -> & _ & PA & AO & LN & (idx & SC) & _ & E2).
    cbn [lookup_loop]. unfold parse_coin_spend. cbn [first rest bind atom_of check_nil]. rewrite PA. cbn [bind].
    cbn [spend_tuples In] in IN.
    destruct (negb (bytes_eqb parent (co_parent f)) || negb (amt =? co_amount f)) eqn:C1.
    - (* the head does not match on parent / amount *)
      destruct IN as [X|IN].
      + exfalso. inversion X; subst. destruct M as (P1 & P2 & P3). inversion P1; subst parent.
        rewrite PA in P2. inversion P2; subst amt. rewrite bytes_eqb_refl, N.eqb_refl in C1. discriminate C1.
      + exact (IH _ _ _ _ _ _ _ _ _ _ E2 f _ _ _ _ IN M).
    - apply Bool.orb_false_elim in C1. destruct C1 as [C1 C2].
      apply Bool.negb_false_iff in C1. apply Bool.negb_false_iff in C2.
      apply bytes_eqb_eq in C1. apply N.eqb_eq in C2.
      destruct (bytes_eqb (th H pz) (co_ph f)) eqn:C3; cbn [negb].
      + (* the head matches the coin: it must be the tuple we look for *)
        apply bytes_eqb_eq in C3.
        destruct IN as [X|IN]; [inversion X; reflexivity|].
        exfalso.
        assert (LK2 : exists j, lookup_idx (coin_id H f) (s_spent_coins s1) = Some j).
        { rewrite SC. rewrite (triple_id f _ _ _ _ _ PA AO C1 C2 C3). apply lookup_idx_head. }
        destruct LK2 as [j LK2].
        exact (spent_blocks _ _ _ _ _ _ _ _ _ _ _ E2 f j LK2 _ IN M).
      + destruct IN as [X|IN].
        * exfalso. inversion X; subst. destruct M as (_ & _ & P3). rewrite P3, bytes_eqb_refl in C3. discriminate C3.
        * exact (IH _ _ _ _ _ _ _ _ _ _ E2 f _ _ _ _ IN M).
  Qed.

  Lemma tuples_spends : forall iter ret st m ex sl r s l e term,
    native_loop run valid_key H K iter ret st m ex sl fl = Ok (r, s, l, e, term) ->
    exists news, b_spends_rev r = rev news ++ b_spends_rev ret /\
                 Forall2 (fun sp t => matches H (snd (removal_of sp)) t) news (spend_tuples iter).
  Proof.
    induction iter as [b|sp _ tl IH]; intros ret st m ex sl r s l e term E.
    - cbn in E. inversion E; subst. exists []. split; [reflexivity|constructor].
    - destruct (native_step _ _ _ _ _ _ _ _ _ _ _ _ E)
        as (p & pz & am & sol & ext & parent & amt & ab & r1 & s1 & l1 & ex1 & -> & -> & _ & PA & AO & LN & _ &
            (spd & BS & F1 & F2 & F3) & E2).
      destruct (IH _ _ _ _ _ _ _ _ _ _ E2) as (news & BS2 & FA).
      exists (spd :: news). split.
      + rewrite BS2, BS. cbn [rev]. rewrite <- app_assoc. reflexivity.
      + cbn [spend_tuples]. constructor; [|exact FA].
        unfold matches, removal_of. cbn. rewrite F1, F2, F3. repeat split; try reflexivity. exact PA.
  Qed.
End LK.

Lemma Forall2_In_impl {A B} (P Q : A -> B -> Prop) l1 l2 :
  Forall2 P l1 l2 -> (forall x y, In y l2 -> P x y -> Q x y) -> Forall2 Q l1 l2.
Proof.
  induction 1; intro HI; constructor.
  - apply HI; [left; reflexivity|assumption].
  - apply IHForall2. intros a b IN. apply HI. right. exact IN.
Qed.


Section CS.
  Variable run : sexp -> sexp -> N -> res (N * sexp).
  Variable valid_key : bytes -> bool.
  Variable H : bytes -> bytes.
  Variable K : consts.
  Variable fl : cflags.

  Lemma cs_native : forall iter ret st m ex sl r s l e term,
    native_loop run valid_key H K iter ret st m ex sl fl = Ok (r, s, l, e, term) ->
    forall acc, exists news,
      b_spends_rev r = rev news ++ b_spends_rev ret /\
      cs_loop H iter acc = Ok (rev (map (fun st => coin_spend_of_tuple (fst st) (snd st)) (combine news (spend_tuples iter))) ++ acc) /\
      length news = length (spend_tuples iter).
  Proof.
    induction iter as [b|sp _ tl IH]; intros ret st m ex sl r s l e term E acc.
    - cbn in E. inversion E; subst. exists []. repeat split.
    - destruct (native_step _ _ _ _ _ _ _ _ _ _ _ _ _ _ _ _ _ E)
        as (p & pz & am & sol & ext & parent & amt & ab & r1 & s1 & l1 & ex1 & -> & -> & LEN & PA & AO & LN & _ &
            (spd & BS & F1 & F2 & F3) & E2).
      set (cs := {| cs_coin := {| co_parent := parent; co_ph := th H pz; co_amount := amt |};
                    cs_puzzle := program_of pz; cs_solution := program_of sol |}).
      destruct (IH _ _ _ _ _ _ _ _ _ _ E2 (cs :: acc)) as (news & BS2 & CL & LN2).
      exists (spd :: news). split; [|split].
      + rewrite BS2, BS. cbn [rev]. rewrite <- app_assoc. reflexivity.
      + cbn [cs_loop extract_5 spend_tuples combine map rev fst snd]. unfold coin_spend_of.
        cbn [bytes32_of]. rewrite LEN. change (Nat.eqb 32 32) with true. cbv iota. rewrite PA. cbn [bind].
        fold cs. rewrite CL. rewrite <- app_assoc. cbn [app]. f_equal. f_equal. f_equal.
        unfold coin_spend_of_tuple, removal_of, cs. cbn. rewrite F1, F2, F3. reflexivity.
      + cbn [spend_tuples length]. rewrite LN2. reflexivity.
  Qed.
End CS.

Section TopLK.
  Variable run : sexp -> sexp -> N -> res (N * sexp).
  Variable valid_key : bytes -> bool.
  Variable sig_ok : list (bytes * bytes) -> bool.
  Variable H : bytes -> bytes.
  Variable K : consts.

  Theorem lookup_correct program refs max_cost gf b spends pairs :
    run_block_generator2 run valid_key sig_ok H K program refs max_cost gf = Ok (b, spends, pairs) ->
    exists out iter,
      native_generator_output run program refs max_cost gf = Ok out /\ first out = Ok iter /\
      Forall2 (fun sp t => let '(_, pz, _, sol) := t in
                           get_puzzle_and_solution_for_coin H out (snd (removal_of sp)) = Ok (pz, sol))
              spends (spend_tuples iter).
  Proof.
    unfold run_block_generator2, native_generator_output. intro E.
    destruct (check_generator_quote program gf) as [[]|]; cbn [bind] in E; [|discriminate E].
    destruct (deser_program program) as [prog|]; cbn [bind] in *; [|discriminate E].
    destruct (subtract_cost max_cost (base_cost program prog gf)) as [clN|]; cbn [bind] in *; [|discriminate E].
    destruct (check_generator_node prog gf) as [[]|]; cbn [bind] in E; [|discriminate E].
    destruct (setup_generator_args refs gf) as [args|]; cbn [bind] in *; [|discriminate E].
    destruct (run_program run prog args clN) as [[c0 out0]|] eqn:RP; cbn [bind] in *; [|discriminate E].
    destruct (subtract_cost clN c0) as [cl1|]; cbn [bind] in E; [|discriminate E].
    destruct (first out0) as [all_spends|] eqn:FO; cbn [bind] in *; [|discriminate E].
    destruct (prepass all_spends) as [[]|]; cbn [bind] in *; [|discriminate E].
    destruct (native_loop run valid_key H K all_spends empty_bundle empty_state cl1 c0
                (if f_limit_spends (g_cond gf) then Some MAX_SPENDS_PER_BLOCK else None) (g_cond gf))
      as [[[[[ret state] cl2] exec] term]|] eqn:NLp; cbn [bind] in E; [|discriminate E].
    destruct term as [[|]|]; try discriminate E.
    destruct (validate_conditions H ret (fast_rev (b_spends_rev ret)) state) as [[]|]; cbn [bind] in E; [|discriminate E].
    destruct (validate_signature sig_ok (g_cond gf) (fast_rev (s_pkm_pairs_rev state))) as [[]|]; cbn [bind] in E; [|discriminate E].
    inversion E; subst; clear E.
    exists out0, all_spends. split; [reflexivity|]. split; [exact FO|].
    destruct (tuples_spends run valid_key H K (g_cond gf) _ _ _ _ _ _ _ _ _ _ _ NLp) as (news & BS & FA).
    cbn [empty_bundle b_spends_rev] in BS. rewrite app_nil_r in BS. rewrite BS, fast_rev_rev, rev_involutive.
    apply (Forall2_In_impl _ _ _ _ FA). intros sp [[[p pz] am] sol] IN M.
    unfold get_puzzle_and_solution_for_coin. rewrite FO. cbn [bind].
    exact (lookup_native run valid_key H K (g_cond gf) _ _ _ _ _ _ _ _ _ _ _ NLp _ _ _ _ _ IN M).
  Qed.
End TopLK.



Section TopCS.
  Variable run : sexp -> sexp -> N -> res (N * sexp).
  Variable valid_key : bytes -> bool.
  Variable sig_ok : list (bytes * bytes) -> bool.
  Variable H : bytes -> bytes.
  Variable K : consts.
  Hypothesis run_exact : run_exact_hyp run.

  Theorem coinspends_correct program refs max_cost gf b spends pairs :
    run_block_generator2 run valid_key sig_ok H K program refs max_cost gf = Ok (b, spends, pairs) ->
    max_cost <= MAX_BLOCK_COST_CLVM ->
    exists out iter,
      native_generator_output run program refs max_cost gf = Ok out /\ first out = Ok iter /\
      length spends = length (spend_tuples iter) /\
      get_coinspends_for_trusted_block run H program refs gf =
        Ok (map (fun st => coin_spend_of_tuple (fst st) (snd st)) (combine spends (spend_tuples iter))).
  Proof.
    unfold run_block_generator2, native_generator_output, get_coinspends_for_trusted_block, generator_output. intros E LM.
    destruct (check_generator_quote program gf) as [[]|]; cbn [bind] in *; [|discriminate E].
    destruct (deser_program program) as [prog|]; cbn [bind] in *; [|discriminate E].
    unfold subtract_cost at 1 in E. unfold subtract_cost at 1.
    destruct (max_cost <? base_cost program prog gf) eqn:LB; cbn [bind] in *; [discriminate E|]. apply N.ltb_ge in LB.
    destruct (check_generator_node prog gf) as [[]|]; cbn [bind] in *; [|discriminate E].
    destruct (setup_generator_args refs gf) as [args|]; cbn [bind] in *; [|discriminate E].
    set (clN := max_cost - base_cost program prog gf) in *.
    destruct (run_program run prog args clN) as [[c0 out0]|] eqn:RP; cbn [bind] in *; [|discriminate E].
    unfold subtract_cost at 1 in E. destruct (clN <? c0) eqn:LT; cbn [bind] in E; [discriminate E|]. apply N.ltb_ge in LT.
    assert (LclN : clN <= MAX_BLOCK_COST_CLVM) by (unfold clN; lia).
    rewrite (run_program_more run run_exact _ _ _ _ _ _ RP LT LclN). cbn [bind].
    destruct out0 as [|all_spends rest0]; cbn [first bind] in *; [discriminate E|].
    destruct (prepass all_spends) as [[]|]; cbn [bind] in *; [|discriminate E].
    destruct (native_loop run valid_key H K all_spends empty_bundle empty_state (clN - c0) c0
                (if f_limit_spends (g_cond gf) then Some MAX_SPENDS_PER_BLOCK else None) (g_cond gf))
      as [[[[[ret state] cl2] exec] term]|] eqn:NLp; cbn [bind] in E; [|discriminate E].
    destruct term as [[|]|]; try discriminate E.
    destruct (validate_conditions H ret (fast_rev (b_spends_rev ret)) state) as [[]|]; cbn [bind] in E; [|discriminate E].
    destruct (validate_signature sig_ok (g_cond gf) (fast_rev (s_pkm_pairs_rev state))) as [[]|]; cbn [bind] in E; [|discriminate E].
    inversion E; subst; clear E.
    destruct (cs_native run valid_key H K (g_cond gf) _ _ _ _ _ _ _ _ _ _ _ NLp []) as (news & BS & CL & LN).
    cbn [empty_bundle b_spends_rev] in BS. rewrite app_nil_r in BS.
    exists (Pair all_spends rest0), all_spends. split; [reflexivity|]. split; [reflexivity|].
    rewrite BS, fast_rev_rev, rev_involutive. split; [exact LN|].
    rewrite CL. cbn [bind]. rewrite app_nil_r, fast_rev_rev, rev_involutive. reflexivity.
  Qed.
End TopCS.

Lemma group_expected sp g : group_ok sp g -> (forall c, ~ In (c, Some []) g) -> g = expected_additions sp.
Proof.
  unfold group_ok, expected_additions. intros [M F]. revert M F. generalize (sp_create_coin sp) as cc.
  induction g as [|[c h] g IH]; intros cc M F NK; destruct cc as [|nc cc]; try discriminate M; [reflexivity|].
  cbn [map] in *. inversion M as [[M1 M2]]. inversion F as [|? ? F1 F2]; subst. cbn [fst] in F1.
  f_equal.
  - destruct c as [cp cph ca]. cbn in *. subst cp. unfold to_nc, owned_hint. cbn.
    destruct h as [[|x xs]|]; cbn; [exfalso; apply (NK {| co_parent := sp_coin_id sp; co_ph := cph; co_amount := ca |}); left; reflexivity| |];
      reflexivity.
  - apply IH; [reflexivity|exact F2|]. intros c0 IN. apply (NK c0). right. exact IN.
Qed.

Lemma group_coins sp g : group_ok sp g -> map fst g = map fst (expected_additions sp).
Proof.
  unfold group_ok, expected_additions. intros [M F]. revert M F. generalize (sp_create_coin sp) as cc.
  induction g as [|[c h] g IH]; intros cc M F; destruct cc as [|nc cc]; try discriminate M; [reflexivity|].
  cbn [map] in *. inversion M as [[M1 M2]]. inversion F as [|? ? F1 F2]; subst. cbn [fst] in *.
  f_equal; [|apply IH; [reflexivity|exact F2]].
  destruct c as [cp cph ca]. cbn in *. subst cp. reflexivity.
Qed.

(* the helper never reports the empty hint *)
Lemma ar_hint_nonempty t : ar_hint t <> Some [].
Proof.
  unfold ar_hint. destruct t as [|[|[h|] ?] ?]; try discriminate.
  destruct h as [|b0 bt]; [cbn; discriminate|].
  destruct (negb (Nat.eqb (length (b0 :: bt)) 0) && Nat.leb (length (b0 :: bt)) 32); discriminate.
Qed.

Lemma ar_condition_hint c ph amt h : ar_condition c = Ok (Some (ph, amt, h)) -> h <> Some [].
Proof.
  unfold ar_condition. intro E.
  destruct (first c) as [op|]; cbn [bind] in E; [|discriminate E].
  destruct op as [opb|]; [|discriminate E].
  destruct (negb (bytes_eqb opb [n2b CREATE_COIN])); [discriminate E|].
  destruct (rest c) as [c1|]; cbn [bind] in E; [|discriminate E].
  destruct c1 as [|pht [|amount hint]]; try discriminate E.
  destruct (bytes32_of pht); [|discriminate E].
  destruct (parse_amount amount InvalidCoinAmount); cbn [bind] in E; [|discriminate E].
  inversion E; subst. apply ar_hint_nonempty.
Qed.

Lemma ar_conditions_hints iter sid : forall acc out,
  ar_conditions iter sid acc = Ok out -> Forall hint_nonempty acc -> Forall hint_nonempty out.
Proof.
  induction iter as [b|c _ nxt IH]; intros acc out E FA; cbn [ar_conditions] in E.
  - destruct b; [|discriminate E]. inversion E; subst. exact FA.
  - destruct (ar_condition c) as [r|] eqn:AC; cbn [bind] in E; [|discriminate E].
    apply (IH _ _ E). destruct r as [[[ph amt] h]|]; cbn [ar_push]; [|exact FA].
    constructor; [|exact FA]. unfold hint_nonempty. cbn [snd]. exact (ar_condition_hint _ _ _ _ AC).
Qed.

Section Hints.
  Variable run : sexp -> sexp -> N -> res (N * sexp).
  Variable H : bytes -> bytes.

  Lemma ar_loop_hints : forall iter m adds rems adds' rems',
    ar_loop run H iter m adds rems = Ok (adds', rems') -> Forall hint_nonempty adds -> Forall hint_nonempty adds'.
  Proof.
    induction iter as [b|spend _ tl IH]; intros m adds rems adds' rems' E FA; cbn [ar_loop] in E.
    - inversion E; subst. exact FA.
    - destruct spend as [|p [|pz [|am [|sol ext]]]]; try discriminate E.
      destruct (bytes32_of p); [|discriminate E].
      destruct (parse_amount am InvalidCoinAmount); cbn [bind] in E; [|discriminate E].
      destruct (run_program run pz sol m) as [[c conds]|]; cbn [bind] in E; [|discriminate E].
      destruct (subtract_cost m c); cbn [bind] in E; [|discriminate E].
      match type of E with context [ar_conditions conds ?sid adds] =>
        destruct (ar_conditions conds sid adds) as [adds1|] eqn:AC; cbn [bind] in E; [|discriminate E] end.
      exact (IH _ _ _ _ _ E (ar_conditions_hints _ _ _ _ AC FA)).
  Qed.

  Lemma additions_hints program refs gf adds rems :
    additions_and_removals run H program refs gf = Ok (adds, rems) -> Forall hint_nonempty adds.
  Proof.
    unfold additions_and_removals. intro E.
    destruct (deser_program program) as [prog|]; cbn [bind] in E; [|discriminate E].
    destruct (setup_generator_args refs gf) as [args|]; cbn [bind] in E; [|discriminate E].
    destruct (run_program run prog args MAX_BLOCK_COST_CLVM) as [[c out]|]; cbn [bind] in E; [|discriminate E].
    destruct (subtract_cost MAX_BLOCK_COST_CLVM c) as [cl|]; cbn [bind] in E; [|discriminate E].
    destruct (first out) as [all_spends|]; cbn [bind] in E; [|discriminate E].
    destruct (prepass all_spends) as [[]|]; cbn [bind] in E; [|discriminate E].
    match type of E with context [ar_loop run H ?it ?m [] []] =>
      destruct (ar_loop run H it m [] []) as [[a r]|] eqn:AL; cbn [bind] in E; [|discriminate E] end.
    inversion E; subst. rewrite fast_rev_rev. apply Forall_rev.
    exact (ar_loop_hints _ _ _ _ _ _ AL (Forall_nil _)).
  Qed.
End Hints.

Section Top.
  Variable run : sexp -> sexp -> N -> res (N * sexp).
  Variable valid_key : bytes -> bool.
  Variable sig_ok : list (bytes * bytes) -> bool.
  Variable H : bytes -> bytes.
  Variable K : consts.
  Hypothesis run_exact : run_exact_hyp run.

  Theorem trusted_additions_and_removals program refs max_cost gf b spends pairs :
    run_block_generator2 run valid_key sig_ok H K program refs max_cost gf = Ok (b, spends, pairs) ->
    max_cost <= MAX_BLOCK_COST_CLVM ->
    additions_and_removals run H program refs gf =
      Ok (concat (map expected_additions spends), map removal_of spends).
  Proof.
    intros E LM. destruct (ar_correct run valid_key sig_ok H K run_exact _ _ _ _ _ _ _ E LM) as (groups & AR & FG).
    pose proof (additions_hints run H _ _ _ _ _ AR) as NH.
    rewrite AR. f_equal. f_equal. clear AR E.
    induction FG as [|sp g sps gs G FG IH]; [reflexivity|].
    cbn [map concat] in *. apply Forall_app in NH. destruct NH as [NH1 NH2]. f_equal.
    - apply (group_expected _ _ G). intros c IN.
      rewrite Forall_forall in NH1. exact (NH1 _ IN eq_refl).
    - exact (IH NH2).
  Qed.
End Top.

(* ---- witnesses (toy oracle: only quoted programs evaluate) ---- *)

Lemma toy_exact_ok H : run_exact_hyp (toy_run H).
Proof. exact (toy_exact H). Qed.

(* the former witness of F-C09-1: an empty-atom first memo is reported as "no hint" by the helper as by validation *)
Lemma empty_memo_example :
  exists run H, run_exact_hyp run /\
  exists vk sig K program refs max_cost gf b spends pairs adds rems,
    max_cost <= MAX_BLOCK_COST_CLVM /\
    run_block_generator2 run vk sig H K program refs max_cost gf = Ok (b, spends, pairs) /\
    additions_and_removals run H program refs gf = Ok (adds, rems) /\
    map snd adds = [None] /\ adds = concat (map expected_additions spends).
Proof.
  exists (toy_run sha256), sha256. split; [apply toy_exact_ok|].
  exists (fun _ => false), (fun _ => true), K0, EMPTY_MEMO_GENERATOR, [], 11000000000, (gflags_of_bits 0).
  do 5 eexists.
  split; [unfold MAX_BLOCK_COST_CLVM; lia|].
  split; [vm_compute; reflexivity|]. split; [vm_compute; reflexivity|].
  split; vm_compute; reflexivity.
Qed.

(* the former witness of F-C09-2: the coin of a spend tuple with a spend-level extra is looked up successfully *)
Lemma lookup_extras_example :
  exists run H, run_exact_hyp run /\
  exists vk sig K program refs max_cost gf b sp pairs out ps,
    run_block_generator2 run vk sig H K program refs max_cost gf = Ok (b, [sp], pairs) /\
    native_generator_output run program refs max_cost gf = Ok out /\
    get_puzzle_and_solution_for_coin H out (snd (removal_of sp)) = Ok ps.
Proof.
  exists (toy_run sha256), sha256. split; [apply toy_exact_ok|].
  exists (fun _ => false), (fun _ => true), K0, EXTRAS_GENERATOR, [], 11000000000, (gflags_of_bits 0).
  do 5 eexists.
  split; [vm_compute; reflexivity|]. split; [vm_compute; reflexivity|].
  vm_compute. reflexivity.
Qed.

(* non-vacuity: an accepted block with a real hint, for which the helper agrees with validation *)

Lemma trusted_example :
  exists run H, run_exact_hyp run /\
  exists vk sig K program refs max_cost gf b spends pairs adds,
    max_cost <= MAX_BLOCK_COST_CLVM /\
    run_block_generator2 run vk sig H K program refs max_cost gf = Ok (b, spends, pairs) /\
    additions_and_removals run H program refs gf = Ok (adds, map removal_of spends) /\
    map snd adds = [Some (repeat x33 32)].
Proof.
  exists (toy_run sha256), sha256. split; [apply toy_exact_ok|].
  exists (fun _ => false), (fun _ => true), K0, HINT32_GENERATOR, [], 11000000000, (gflags_of_bits 0).
  do 4 eexists.
  split; [unfold MAX_BLOCK_COST_CLVM; lia|].
  split; [vm_compute; reflexivity|]. split; [vm_compute; reflexivity|].
  vm_compute; reflexivity.
Qed.
