(* Chain/Generator.v — mirrors of chia-consensus/src/run_block_generator.rs:
   subtract_cost, setup_generator_args, check_generator_quote, check_generator_node, extract_n,
   run_block_generator (legacy: generator ROM run inside CLVM, then parse_spends) and
   run_block_generator2 (native: the ROM's loop in Rust, fused with process_single_spend).
   CLVM evaluation is the oracle `run` (program, environment, budget -> cost, result);
   the aggregate-signature verdict is the oracle `sig_ok` on the collected (key, message) pairs.
   Definitions only. *)
From ChiaV.Base Require Import Bytes.
From ChiaV.Clvm Require Import Sexp Ints TreeHash.
From ChiaV.Gen Require Import Opcodes Ladders ChainConsts.
From ChiaV.Cond Require Import Model.
From ChiaV.Chain Require Import Backref Intern Rom.
Open Scope N_scope.

Record gflags := {
  g_cond : cflags;           (* the condition flags of Cond/Model.v *)
  g_simple : bool;           (* SIMPLE_GENERATOR *)
  g_interned : bool          (* INTERNED_GENERATOR *)
}.

Definition gflags_of_bits (n : N) : gflags :=
  {| g_cond := flags_of_bits n;
     g_simple := negb (N.land n FLAG_SIMPLE_GENERATOR =? 0);
     g_interned := negb (N.land n FLAG_INTERNED_GENERATOR =? 0) |}.

(* the result of a generator run: summary, spends in order, the (key, message) pairs *)
Definition gresult := (bundle * list spend * list (bytes * bytes))%type.

Definition subtract_cost (cost_left subtract : N) : res N :=
  if cost_left <? subtract then Err CostExceeded else Ok (cost_left - subtract).

Definition check_generator_quote (program : bytes) (gf : gflags) : res unit :=
  if negb (g_simple gf) then Ok tt
  else match program with
       | b0 :: b1 :: _ => if byte_eqb b0 xff && byte_eqb b1 x01 then Ok tt else Err GeneratorRuntimeError
       | _ => Err GeneratorRuntimeError
       end.

(* <(MatchByte<1>, NodePtr)>::from_clvm *)
Definition check_generator_node (program : sexp) (gf : gflags) : res unit :=
  if negb (g_simple gf) then Ok tt
  else match program with
       | Pair (Atom [b]) _ => if b2n b =? 1 then Ok tt else Err GeneratorRuntimeError
       | _ => Err GeneratorRuntimeError
       end.

Definition setup_generator_args (refs : list bytes) (gf : gflags) : res sexp :=
  if g_simple gf then
    match refs with
    | [] => Ok nil
    | _ :: _ => Err GeneratorRuntimeError            (* TooManyGeneratorRefs *)
    end
  else Ok (generator_args_full refs).

(* run_block_generator (since fix e4597dd2): simple generators take no block references; the check sits right
   before the references are consed into the ROM's arguments *)
Definition check_simple_refs (refs : list bytes) (gf : gflags) : res unit :=
  if g_simple gf then
    match refs with
    | [] => Ok tt
    | _ :: _ => Err GeneratorRuntimeError            (* TooManyGeneratorRefs *)
    end
  else Ok tt.

Definition deser_program (program : bytes) : res sexp :=
  match node_from_bytes_backrefs program with
  | Some t => Ok t
  | None => Err GeneratorRuntimeError
  end.

(* extract_n::<N>: N-1 list elements followed by the rest (which may be anything) *)
Definition extract_3 (t : sexp) : res (sexp * sexp * sexp) :=
  match t with
  | Pair a (Pair b r) => Ok (a, b, r)
  | _ => Err InvalidCondition
  end.
Definition extract_5 (t : sexp) : res (sexp * sexp * sexp * sexp * sexp) :=
  match t with
  | Pair a (Pair b (Pair c (Pair d r))) => Ok (a, b, c, d, r)
  | _ => Err InvalidCondition
  end.

Section Gen.
  Variable run : sexp -> sexp -> N -> res (N * sexp).
  Variable valid_key : bytes -> bool.
  Variable sig_ok : list (bytes * bytes) -> bool.     (* aggregate_verify of the block's signature *)
  Variable H : bytes -> bytes.
  Variable K : consts.

  (* clvmr run_program: a budget of 0 means Cost::MAX *)
  Definition run_program (p env : sexp) (max_cost : N) : res (N * sexp) :=
    run p env (if max_cost =? 0 then COST_MAX else max_cost).

  Definition validate_signature (fl : cflags) (pairs : list (bytes * bytes)) : res unit :=
    if f_dont_validate fl then Ok tt
    else if sig_ok pairs then Ok tt else Err BadAggregateSignature.

  Definition set_costs (b : bundle) (cost exec : N) : bundle :=
    {| b_spends_rev := b_spends_rev b; b_reserve_fee := b_reserve_fee b;
       b_height_absolute := b_height_absolute b; b_seconds_absolute := b_seconds_absolute b;
       b_agg_sig_unsafe := b_agg_sig_unsafe b; b_before_height_absolute := b_before_height_absolute b;
       b_before_seconds_absolute := b_before_seconds_absolute b;
       b_cost := cost; b_exec_cost := exec; b_cond_cost := b_cond_cost b;
       b_removal := b_removal b; b_addition := b_addition b |}.

  (* ---------------- legacy path ---------------- *)
  Definition run_block_generator (program : bytes) (refs : list bytes) (max_cost : N) (gf : gflags) : res gresult :=
    let fl := g_cond gf in
    _ <- check_generator_quote program gf ;;
    let byte_cost := nlen program * COST_PER_BYTE in
    cost_left <- subtract_cost max_cost byte_cost ;;
    prog <- deser_program program ;;
    _ <- check_generator_node prog gf ;;
    _ <- check_simple_refs refs gf ;;
    '(clvm_cost, generator_output) <- run_program ROM (rom_args prog refs) cost_left ;;
    cost_left1 <- subtract_cost cost_left clvm_cost ;;
    '(ret, spends, pairs) <- parse_spends valid_key H K fl VEmpty generator_output cost_left1 LEGACY_CLVM_COST_PER_SPEND ;;
    _ <- validate_signature fl pairs ;;
    Ok (set_costs ret (b_cost ret + (max_cost - cost_left1)) clvm_cost, spends, pairs).

  (* ---------------- native path ---------------- *)
  (* first loop: extract_n::<3> over ALL spends before any puzzle runs; a.next stops at any atom *)
  Fixpoint prepass (iter : sexp) : res unit :=
    match iter with
    | Pair spend rest => _ <- extract_3 spend ;; prepass rest
    | Atom _ => Ok tt
    end.

  (* second loop; returns the state at the atom that ended the list and that atom *)
  Fixpoint native_loop (iter : sexp) (ret : bundle) (state : pstate) (cost_left exec : N) (spends_left : option N)
           (fl : cflags) : res (bundle * pstate * N * N * sexp) :=
    match iter with
    | Pair spend rest =>
        match spends_left with
        | Some 0 => Err TooManySpends
        | _ =>
            '(parent_id, puzzle, amount, solution, _) <- extract_5 spend ;;
            '(clvm_cost, conditions) <- run_program puzzle solution cost_left ;;
            cost_left1 <- subtract_cost cost_left clvm_cost ;;
            let puzzle_hash := Atom (th H puzzle) in
            '(ret1, state1, cost_left2) <-
              process_single_spend valid_key H K fl VEmpty ret state parent_id puzzle_hash amount conditions
                                   cost_left1 clvm_cost ;;
            native_loop rest ret1 state1 cost_left2 (exec + clvm_cost) (option_map N.pred spends_left) fl
        end
    | Atom _ => Ok (ret, state, cost_left, exec, iter)
    end.

  Definition base_cost (program : bytes) (prog : sexp) (gf : gflags) : N :=
    if g_interned gf then interned_vbytes prog * COST_PER_BYTE else nlen program * COST_PER_BYTE.

  Definition run_block_generator2 (program : bytes) (refs : list bytes) (max_cost : N) (gf : gflags) : res gresult :=
    let fl := g_cond gf in
    _ <- check_generator_quote program gf ;;
    prog <- deser_program program ;;
    cost_left <- subtract_cost max_cost (base_cost program prog gf) ;;
    _ <- check_generator_node prog gf ;;
    args <- setup_generator_args refs gf ;;
    '(clvm_cost, all_spends0) <- run_program prog args cost_left ;;
    cost_left1 <- subtract_cost cost_left clvm_cost ;;
    all_spends <- first all_spends0 ;;
    _ <- prepass all_spends ;;
    '(ret, state, cost_left2, exec, term) <-
      native_loop all_spends empty_bundle empty_state cost_left1 clvm_cost
                  (if f_limit_spends fl then Some MAX_SPENDS_PER_BLOCK else None) fl ;;
    match term with
    | Atom [] =>
        let spends := fast_rev (b_spends_rev ret) in
        _ <- validate_conditions H ret spends state ;;
        let pairs := fast_rev (s_pkm_pairs_rev state) in
        _ <- validate_signature fl pairs ;;
        Ok (set_costs ret (max_cost - cost_left2) exec, spends, pairs)
    | _ => Err GeneratorRuntimeError
    end.
End Gen.
