(* Chain/TrustedSpec.v — what the C09 theorems speak about: what the validated conditions say the removals and
   additions of a block are, the witness classes of the two findings, the spend tuples of a generator output.
   Definitions only. *)
From ChiaV.Base Require Import Bytes.
From ChiaV.Clvm Require Import Sexp TreeHash.
From ChiaV.Gen Require Import ChainConsts.
From ChiaV.Cond Require Import Model.
From ChiaV.Chain Require Import Backref Rom Generator Trusted.
Open Scope N_scope.

(* a removal as the validated spend reports it: (coin id, coin) *)
Definition removal_of (sp : spend) : bytes * coin :=
  (sp_coin_id sp, {| co_parent := sp_parent sp; co_ph := sp_ph sp; co_amount := sp_amount sp |}).

(* hints: in the condition mirror "no hint" is the empty byte string (nil node); a helper's optional hint as bytes *)
Definition hint_bytes (h : option bytes) : bytes := match h with Some x => x | None => [] end.
(* the hint as the validated summary reports it (OwnedSpendConditions): the empty atom is nil = no hint *)
Definition owned_hint (nc : new_coin) : option bytes := match nc_hint nc with [] => None | h => Some h end.

Definition to_nc (e : coin * option bytes) : new_coin :=
  {| nc_ph := co_ph (fst e); nc_amount := co_amount (fst e); nc_hint := hint_bytes (snd e) |}.

(* the additions a helper reports for one spend, against the spend's validated created coins *)
Definition group_ok (sp : spend) (g : list (coin * option bytes)) : Prop :=
  map to_nc g = sp_create_coin sp /\ Forall (fun e => co_parent (fst e) = sp_coin_id sp) g.

(* the additions (with hints) the validated conditions define, in condition order *)
Definition expected_additions (sp : spend) : list (coin * option bytes) :=
  map (fun nc => ({| co_parent := sp_coin_id sp; co_ph := nc_ph nc; co_amount := nc_amount nc |}, owned_hint nc))
      (sp_create_coin sp).

(* a reported hint is never the empty string (since fix 0a21e864) *)
Definition hint_nonempty (e : coin * option bytes) : Prop := snd e <> Some [].

(* the spend tuples of a generator output, up to the first element that is not a 4-tuple *)
Fixpoint spend_tuples (iter : sexp) : list (sexp * sexp * sexp * sexp) :=
  match iter with
  | Pair (Pair p (Pair pz (Pair am (Pair sol _)))) tl => (p, pz, am, sol) :: spend_tuples tl
  | _ => []
  end.

Definition matches (H : bytes -> bytes) (f : coin) (t : sexp * sexp * sexp * sexp) : Prop :=
  let '(p, pz, am, _) := t in
  p = Atom (co_parent f) /\ parse_amount am InvalidCoinAmount = Ok (co_amount f) /\ th H pz = co_ph f.

(* the coin spend the recovery helpers build for a validated spend from its tuple: the validated coin, the
   serialized puzzle reveal and solution (Program::from_clvm, nil program above 2 MB) *)
Definition coin_spend_of_tuple (sp : spend) (t : sexp * sexp * sexp * sexp) : coin_spend :=
  let '(_, pz, _, sol) := t in
  {| cs_coin := snd (removal_of sp); cs_puzzle := program_of pz; cs_solution := program_of sol |}.

(* the generator's output as the native path obtains it *)
Definition native_generator_output (run : sexp -> sexp -> N -> res (N * sexp))
           (program : bytes) (refs : list bytes) (max_cost : N) (gf : gflags) : res sexp :=
  prog <- deser_program program ;;
  cost_left <- subtract_cost max_cost (base_cost program prog gf) ;;
  args <- setup_generator_args refs gf ;;
  '(_, out) <- run_program run prog args cost_left ;;
  Ok out.


(* ---------------- rebuilding a generator from the recovered coin spends ---------------- *)
(* a tree whose plain serialization exists and stays within node_to_bytes' 2 000 000 byte limit *)
Definition fits (t : sexp) : Prop := exists b, ser t = Some b /\ nlen b <= 2000000.
Definition fits_tuple (t : sexp * sexp * sexp * sexp) : Prop := let '(_, pz, _, sol) := t in fits pz /\ fits sol.
Definition tuple_item (t : sexp * sexp * sexp * sexp) : sexp :=
  let '(p, pz, am, sol) := t in Pair p (Pair pz (Pair am (Pair sol nil))).
(* the spend list of the rebuilt generator: the accepted tuples in their order, spend-level extras dropped, nil terminated *)
Definition rebuilt_spends (iter : sexp) : sexp := fold_right Pair nil (map tuple_item (spend_tuples iter)).
Definition rebuilt_generator (iter : sexp) : sexp := Pair (Atom [x01]) (Pair (rebuilt_spends iter) nil).

(* the condition view get_coinspends_with_conditions_for_trusted_block reports for a spend tuple: the scan
   csc_conditions of the puzzle's output *)
Definition tuple_conditions (run : sexp -> sexp -> N -> res (N * sexp)) (t : sexp * sexp * sexp * sexp) : list (N * list bytes) :=
  let '(_, pz, _, sol) := t in
  match run_program run pz sol MAX_BLOCK_COST_CLVM with
  | Ok (_, conds) => csc_conditions conds []
  | Err _ => []
  end.
Definition csc_of (run : sexp -> sexp -> N -> res (N * sexp)) (st : spend * (sexp * sexp * sexp * sexp))
  : coin_spend * list (N * list bytes) :=
  (coin_spend_of_tuple (fst st) (snd st), tuple_conditions run (snd st)).

(* witnesses: one spend of coin (0x11*32, puzzle, 10) whose puzzle is (q . ((51 0x22*32 5 . MEMO_TAIL))) *)
Definition cc_generator (memo_tail : sexp) (spend_tail : sexp) : bytes :=
  let cond := Pair (Atom [x33]) (Pair (Atom (repeat x22 32)) (Pair (Atom [x05]) memo_tail)) in
  let puzzle := Pair (Atom [x01]) (Pair cond nil) in
  let spend := Pair (Atom (repeat x11 32)) (Pair puzzle (Pair (Atom [x0a]) (Pair nil spend_tail))) in
  ser' (Pair (Atom [x01]) (Pair (Pair spend nil) nil)).
(* the memo list is ("") : its first element is the empty atom (former witness of F-C09-1) *)
Definition EMPTY_MEMO_GENERATOR : bytes := cc_generator (Pair (Pair nil nil) nil) nil.
(* no memo; a spend-level extra after the solution (former witness of F-C09-2) *)
Definition EXTRAS_GENERATOR : bytes := cc_generator nil (Pair (Atom [x65]) nil).
(* a 32-byte first memo *)
Definition HINT32_GENERATOR : bytes := cc_generator (Pair (Pair (Atom (repeat x33 32)) nil) nil) nil.
