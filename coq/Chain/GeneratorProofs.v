(* Chain/GeneratorProofs.v — C07: the legacy (ROM) and the native generator paths agree. *)
From Coq Require Import Lia ZArith.
From ChiaV.Base Require Import Bytes.
From ChiaV.Clvm Require Import Sexp Ints TreeHash.
From ChiaV.Gen Require Import Opcodes Ladders ChainConsts.
From ChiaV.Cond Require Import Model.
From ChiaV.Chain Require Import Backref Intern Rom Generator RomProofs.
From ChiaV.Chain Require Import GeneratorSpec CondBudgetProofs GenToy.
From ChiaV.Base Require Import Sha256.
Open Scope N_scope.

Section A.
  Variable valid_key : bytes -> bool.
  Variable K : consts.
  Variable fl : cflags.
  Variable H : bytes -> bytes.

  Notation psp := (process_single_spend valid_key H K fl VEmpty).

  Lemma psp_erased ret st parent ph amount conds m r s l :
    psp (erase_b ret) st parent ph amount conds m 0 = Ok (r, s, l) -> erase_b r = r.
  Proof.
    intro E. pose proof (psp_T valid_key K fl H (erase_b ret) st parent ph amount conds m 0 0) as P.
    rewrite E in P. destruct P as [_ P]. rewrite erase_b_idem, N.add_0_r in P. rewrite E in P.
    inversion P. congruence.
  Qed.

  Lemma psp_agree retN st parent ph amount conds mL mN c :
    psp (erase_b retN) st parent ph amount conds mL 0 <> Err CostExceeded ->
    psp retN st parent ph amount conds mN c <> Err CostExceeded ->
    match psp (erase_b retN) st parent ph amount conds mL 0, psp retN st parent ph amount conds mN c return Prop with
    | Ok (rL, sL, lL), Ok (rN, sN, lN) => rL = erase_b rN /\ sL = sN /\ lL <= mL /\ lN <= mN /\ mL - lL = mN - lN
    | Err _, Err _ => True
    | _, _ => False
    end.
  Proof.
    intros NA NB.
    destruct (N.le_gt_cases mN mL) as [LE|GT].
    - pose proof (psp_T valid_key K fl H retN st parent ph amount conds mN c (mL - mN)) as P.
      replace (mN + (mL - mN)) with mL in P by lia.
      destruct (psp retN st parent ph amount conds mN c) as [[[rN sN] lN]|e] eqn:EB.
      + destruct P as [L P]. rewrite P. repeat split; try lia.
      + destruct (psp (erase_b retN) st parent ph amount conds mL 0) as [[[rL sL] lL]|e'] eqn:EA.
        * assert (e <> CostExceeded) as ne by (intro; subst; apply NB; reflexivity). discriminate (P ne).
        * exact I.
    - pose proof (psp_T valid_key K fl H (erase_b retN) st parent ph amount conds mL 0 (mN - mL)) as PA.
      pose proof (psp_T valid_key K fl H retN st parent ph amount conds mN c 0) as PB.
      rewrite erase_b_idem in PA. replace (mL + (mN - mL)) with mN in PA by lia. rewrite N.add_0_r in PB.
      destruct (psp (erase_b retN) st parent ph amount conds mL 0) as [[[rL sL] lL]|eA] eqn:EA;
      destruct (psp retN st parent ph amount conds mN c) as [[[rN sN] lN]|eB] eqn:EB.
      + destruct PA as [LA PA]. destruct PB as [LB PB]. rewrite PA in PB. inversion PB; subst.
        pose proof (psp_erased _ _ _ _ _ _ _ _ _ _ EA) as Er.
        repeat split; try lia. congruence.
      + destruct PA as [LA PA]. assert (eB <> CostExceeded) as ne by (intro; subst; apply NB; reflexivity). rewrite (PB ne) in PA; discriminate PA.
      + destruct PB as [LB PB]. assert (eA <> CostExceeded) as ne by (intro; subst; apply NA; reflexivity). rewrite (PA ne) in PB; discriminate PB.
      + exact I.
  Qed.
End A.

Definition is_cost {A} (r : res A) : Prop := r = Err CostExceeded.

Section Agree.
  Variable run : sexp -> sexp -> N -> res (N * sexp).
  Variable valid_key : bytes -> bool.
  Variable sig_ok : list (bytes * bytes) -> bool.
  Variable H : bytes -> bytes.
  Variable K : consts.

  (* the CLVM oracle is budget-monotone and exact: a successful evaluation has an intrinsic cost and
     succeeds on exactly the budgets that cover it, failing with CostExceeded below *)
  Hypothesis run_exact : forall p a b c r, run p a b = Ok (c, r) ->
    forall b', run p a b' = if c <=? b' then Ok (c, r) else Err CostExceeded.

  Lemma run_cost_le p a b c r : run p a b = Ok (c, r) -> c <= b.
  Proof.
    intro E. pose proof (run_exact _ _ _ _ _ E b) as E2. rewrite E in E2.
    destruct (c <=? b) eqn:L; [apply N.leb_le; exact L|discriminate].
  Qed.

  Variable fl : cflags.
  Notation psp := (process_single_spend valid_key H K fl VEmpty).
  Notation sloop := (spends_loop valid_key H K fl VEmpty).
  Notation nloop := (fun iter ret st m ex sl => native_loop run valid_key H K iter ret st m ex sl fl).

  Lemma recurse_prepass iter cs l : recurse run H iter = Ok (cs, l) -> prepass iter = Ok tt.
  Proof.
    revert cs l. induction iter as [b|sp _ tl IH]; intros cs l E; cbn in *; [reflexivity|].
    unfold process_coin_spend in E.
    destruct sp as [|p [|pz [|am [|sol ex]]]]; cbn in E; try discriminate.
    cbn. destruct (run pz sol COST_MAX) as [[c conds]|]; cbn in E; [|discriminate].
    destruct (recurse run H tl) as [[c2 r]|]; cbn in E; [|discriminate].
    eapply IH; reflexivity.
  Qed.

  Lemma run_program_cases p a m c r :
    run p a COST_MAX = Ok (c, r) ->
    run_program run p a m = Err CostExceeded \/ run_program run p a m = Ok (c, r).
  Proof.
    intro E. unfold run_program. rewrite (run_exact _ _ _ _ _ E).
    destruct (c <=? _); [right|left]; reflexivity.
  Qed.

  Lemma loop_agree : forall iter cs l, recurse run H iter = Ok (cs, l) ->
    forall retN st mL mN ex sl,
      sloop l (erase_b retN) st mL sl 0 <> Err CostExceeded ->
      nloop iter retN st mN ex sl <> Err CostExceeded ->
      match sloop l (erase_b retN) st mL sl 0, nloop iter retN st mN ex sl return Prop with
      | Ok (rL, sL, lL), Ok (rN, sN, lN, exN, term) =>
          term = Atom [] /\ rL = erase_b rN /\ sL = sN /\ exN = ex + cs /\ lL <= mL /\ lN + cs <= mN /\ mL - lL = mN - lN - cs
      | Err _, Err _ => True
      | _, _ => False
      end.
  Proof.
    induction iter as [b|sp _ tl IH]; intros cs l E retN st mL mN ex sl NL NN.
    - cbn in E. destruct b; [|discriminate]. inversion E; subst. cbn. repeat split; lia.
    - cbn [recurse] in E. unfold process_coin_spend in E.
      destruct sp as [|p [|pz [|am [|sol extras]]]]; cbn in E; try discriminate.
      destruct (run pz sol COST_MAX) as [[c1 conds]|] eqn:ER; cbn in E; [|discriminate].
      destruct (recurse run H tl) as [[c2 r]|] eqn:ERR; cbn in E; [|discriminate].
      inversion E; subst cs l; clear E.
      cbn [spends_loop native_loop] in *.
      destruct sl as [[|slp]|].
      + exact I.
      + (* Some (pos) *)
        cbn [parse_single_spend first rest bind extract_5] in *.
        destruct (run_program_cases pz sol mN c1 conds ER) as [RC|RC]; rewrite RC in *; cbn [bind] in *;
          [exfalso; apply NN; reflexivity|].
        unfold subtract_cost in *.
        destruct (mN <? c1) eqn:LT; cbn [bind] in *; [exfalso; apply NN; reflexivity|].
        apply N.ltb_ge in LT.
        rewrite sha256tree_th in *.
        pose proof (psp_agree valid_key K fl H retN st p (Atom (th H pz)) am conds mL (mN - c1) c1) as PA.
        destruct (psp (erase_b retN) st p (Atom (th H pz)) am conds mL 0) as [[[rL1 sL1] lL1]|eL] eqn:EL;
        destruct (psp retN st p (Atom (th H pz)) am conds (mN - c1) c1) as [[[rN1 sN1] lN1]|eN] eqn:EN;
          cbn [bind] in *.
        * destruct PA as (-> & -> & B1 & B2 & B3); try congruence.
          specialize (IH _ _ eq_refl rN1 sN1 lL1 lN1 (ex + c1) (option_map N.pred (Some (N.pos slp))) NL NN).
          destruct (sloop r (erase_b rN1) sN1 lL1 (option_map N.pred (Some (N.pos slp))) 0) as [[[rL sL] lL]|];
          destruct (nloop tl rN1 sN1 lN1 (ex + c1) (option_map N.pred (Some (N.pos slp)))) as [[[[[rN sN] lN] exN] term]|];
            try exact IH.
          destruct IH as (? & ? & ? & ? & ? & ? & ?). repeat split; try assumption; lia.
        * exfalso; apply PA; congruence.
        * exfalso; apply PA; congruence.
        * exact I.
      + cbn [parse_single_spend first rest bind extract_5] in *.
        destruct (run_program_cases pz sol mN c1 conds ER) as [RC|RC]; rewrite RC in *; cbn [bind] in *;
          [exfalso; apply NN; reflexivity|].
        unfold subtract_cost in *.
        destruct (mN <? c1) eqn:LT; cbn [bind] in *; [exfalso; apply NN; reflexivity|].
        apply N.ltb_ge in LT.
        rewrite sha256tree_th in *.
        pose proof (psp_agree valid_key K fl H retN st p (Atom (th H pz)) am conds mL (mN - c1) c1) as PA.
        destruct (psp (erase_b retN) st p (Atom (th H pz)) am conds mL 0) as [[[rL1 sL1] lL1]|eL] eqn:EL;
        destruct (psp retN st p (Atom (th H pz)) am conds (mN - c1) c1) as [[[rN1 sN1] lN1]|eN] eqn:EN;
          cbn [bind] in *.
        * destruct PA as (-> & -> & B1 & B2 & B3); try congruence.
          specialize (IH _ _ eq_refl rN1 sN1 lL1 lN1 (ex + c1) (option_map N.pred None) NL NN).
          destruct (sloop r (erase_b rN1) sN1 lL1 (option_map N.pred None) 0) as [[[rL sL] lL]|];
          destruct (nloop tl rN1 sN1 lN1 (ex + c1) (option_map N.pred None)) as [[[[[rN sN] lN] exN] term]|];
            try exact IH.
          destruct IH as (? & ? & ? & ? & ? & ? & ?). repeat split; try assumption; lia.
        * exfalso; apply PA; congruence.
        * exfalso; apply PA; congruence.
        * exact I.
  Qed.

  (* budgets never exceed clvmr's Cost::MAX, so an evaluation that succeeds within a budget also succeeds unbudgeted *)
  Lemma run_program_ok_max p a m c r : m <= COST_MAX -> run_program run p a m = Ok (c, r) -> run p a COST_MAX = Ok (c, r).
  Proof.
    unfold run_program. intros Lm E. pose proof (run_cost_le _ _ _ _ _ E) as Lc.
    rewrite (run_exact _ _ _ _ _ E COST_MAX).
    assert (c <=? COST_MAX = true) as ->; [|reflexivity].
    apply N.leb_le. destruct (m =? 0); lia.
  Qed.

  Lemma recurse_err_native : forall iter e, recurse run H iter = Err e ->
    forall retN st mN ex sl, mN <= COST_MAX ->
      match nloop iter retN st mN ex sl with
      | Ok (_, _, _, _, term) => term <> Atom []
      | Err _ => True
      end.
  Proof.
    induction iter as [b|sp _ tl IH]; intros e E retN st mN ex sl Lm.
    - cbn in *. destruct b; [discriminate|congruence].
    - cbn [recurse] in E. cbn [native_loop].
      destruct sl as [[|slp]|]; [exact I| |].
      all: unfold process_coin_spend in E;
        destruct sp as [|p [|pz [|am [|sol extras]]]]; try exact I;
        cbn [extract_5 bind]; cbn [rom_destructure bind] in E;
        destruct (run_program run pz sol mN) as [[c1 conds]|] eqn:RP; cbn [bind]; [|exact I];
        rewrite (run_program_ok_max _ _ _ _ _ Lm RP) in E; cbn [bind] in E;
        unfold subtract_cost; destruct (mN <? c1) eqn:LT; cbn [bind]; [exact I|];
        pose proof (psp_T valid_key K fl H retN st p (Atom (th H pz)) am conds (mN - c1) c1 0) as PT;
        destruct (psp retN st p (Atom (th H pz)) am conds (mN - c1) c1) as [[[rN1 sN1] lN1]|]; cbn [bind]; [|exact I];
        destruct PT as [LL _];
        destruct (recurse run H tl) as [[c2 r]|e2] eqn:ERR; cbn [bind] in E; [discriminate|];
        apply (IH _ eq_refl); lia.
  Qed.

  (* ---------------------------------------------------------------- the two paths *)
  Hypothesis run_quote : forall x env b, 20 <= b -> run (Pair (Atom [x01]) x) env b = Ok (20, x).
  Hypothesis rom_ok : forall g refs b c out, run ROM (rom_args g refs) b = Ok (c, out) ->
    exists c', rom_eval run H g refs = Ok (c', out) /\ c' <= c.
  Hypothesis rom_err : forall g refs b e, run ROM (rom_args g refs) b = Err e -> e <> CostExceeded ->
    exists e', rom_eval run H g refs = Err e'.

  (* the part of the native path after the generator's arguments are set up *)
  Definition native_tail (prog args : sexp) (cost_left max_cost : N) : res gresult :=
    '(clvm_cost, all_spends0) <- run_program run prog args cost_left ;;
    cost_left1 <- subtract_cost cost_left clvm_cost ;;
    all_spends <- first all_spends0 ;;
    _ <- prepass all_spends ;;
    '(ret, state, cost_left2, exec, term) <-
      native_loop run valid_key H K all_spends empty_bundle empty_state cost_left1 clvm_cost
                  (if f_limit_spends fl then Some MAX_SPENDS_PER_BLOCK else None) fl ;;
    match term with
    | Atom [] =>
        let spends := fast_rev (b_spends_rev ret) in
        _ <- validate_conditions H ret spends state ;;
        let pairs := fast_rev (s_pkm_pairs_rev state) in
        _ <- validate_signature sig_ok fl pairs ;;
        Ok (set_costs ret (max_cost - cost_left2) exec, spends, pairs)
    | _ => Err GeneratorRuntimeError
    end.

  Lemma native_tail_err prog args refs clN max_cost e :
    clN <= COST_MAX ->
    (forall c r, run prog args COST_MAX = Ok (c, r) -> run prog (generator_args_full refs) COST_MAX = Ok (c, r)) ->
    rom_eval run H prog refs = Err e ->
    exists e', native_tail prog args clN max_cost = Err e'.
  Proof.
    intros Lc Same RE. unfold native_tail, rom_eval in *.
    destruct (run_program run prog args clN) as [[c0 gout]|e0] eqn:RP; cbn [bind]; [|eauto].
    pose proof (run_cost_le _ _ _ _ _ RP) as Lc0.
    rewrite (Same _ _ (run_program_ok_max _ _ _ _ _ Lc RP)) in RE. cbn [bind] in RE.
    unfold subtract_cost. destruct (clN <? c0) eqn:LT; cbn [bind]; [eauto|]. apply N.ltb_ge in LT.
    unfold process_decompressor in RE.
    destruct gout as [|cs_ extras]; cbn [first bind]; [eauto|].
    destruct (recurse run H cs_) as [[c1 l]|e1] eqn:RC; cbn [bind] in RE; [discriminate|].
    destruct (prepass cs_) as [[]|]; cbn [bind]; [|eauto].
    pose proof (recurse_err_native cs_ e1 RC empty_bundle empty_state (clN - c0) c0
                  (if f_limit_spends fl then Some MAX_SPENDS_PER_BLOCK else None)) as NE.
    destruct (native_loop run valid_key H K cs_ empty_bundle empty_state (clN - c0) c0
                (if f_limit_spends fl then Some MAX_SPENDS_PER_BLOCK else None) fl) as [[[[[rN sN] lN] exN] term]|];
      cbn [bind]; [|eauto].
    assert (term <> Atom []) as NT by (apply NE; lia).
    destruct term as [[|]|]; [congruence|eauto|eauto].
  Qed.

  Definition legacy_tail (out : sexp) (cl1 max_cost clvm_cost : N) : res gresult :=
    '(ret, spends, pairs) <- parse_spends valid_key H K fl VEmpty out cl1 LEGACY_CLVM_COST_PER_SPEND ;;
    _ <- validate_signature sig_ok fl pairs ;;
    Ok (set_costs ret (b_cost ret + (max_cost - cl1)) clvm_cost, spends, pairs).

  Lemma erase_set_costs b c e : erase_b (set_costs (erase_b b) c e) = erase_b (set_costs b c e).
  Proof. unfold erase_b, set_costs; cbn. rewrite map_map. reflexivity. Qed.

  Lemma tails_agree prog args gout c0 c1 out clL1 clN max_cost c :
    run prog args COST_MAX = Ok (c0, gout) ->
    process_decompressor run H gout = Ok (c1, out) ->
    legacy_tail out clL1 max_cost c <> Err CostExceeded ->
    native_tail prog args clN max_cost <> Err CostExceeded ->
    match legacy_tail out clL1 max_cost c, native_tail prog args clN max_cost return Prop with
    | Ok s1, Ok s2 =>
        neutral s1 = neutral s2 /\ b_exec_cost (fst (fst s1)) = c /\ b_exec_cost (fst (fst s2)) = c0 + c1 /\
        exists k, b_cost (fst (fst s1)) = k + (max_cost - clL1) /\ k <= clL1 /\
                  c0 + c1 + k <= clN /\ b_cost (fst (fst s2)) = max_cost - (clN - c0 - c1 - k)
    | Err _, Err _ => True
    | _, _ => False
    end.
  Proof.
    intros RG PD NL NN. unfold legacy_tail, native_tail, parse_spends, LEGACY_CLVM_COST_PER_SPEND in *.
    unfold process_decompressor in PD. destruct gout as [|cs_ extras]; [discriminate|].
    destruct (recurse run H cs_) as [[c1' l]|] eqn:RC; cbn [bind] in PD; [|discriminate].
    inversion PD; subst c1' out; clear PD.
    cbn [first bind] in *.
    destruct (run_program_cases prog args clN c0 _ RG) as [RP|RP]; rewrite RP in *; cbn [bind] in *;
      [exfalso; apply NN; reflexivity|].
    unfold subtract_cost in *. destruct (clN <? c0) eqn:LT; cbn [bind] in *; [exfalso; apply NN; reflexivity|].
    apply N.ltb_ge in LT.
    cbn [first bind] in *.
    rewrite (recurse_prepass _ _ _ RC) in *. cbn [bind] in *.
    set (sl := if f_limit_spends fl then Some MAX_SPENDS_PER_BLOCK else None) in *.
    pose proof (loop_agree cs_ c1 l RC empty_bundle empty_state clL1 (clN - c0) c0 sl) as LA.
    change (erase_b empty_bundle) with empty_bundle in LA.
    destruct (sloop l empty_bundle empty_state clL1 sl 0) as [[[rL sL] lL]|eL] eqn:EL;
    destruct (native_loop run valid_key H K cs_ empty_bundle empty_state (clN - c0) c0 sl fl)
      as [[[[[rN sN] lN] exN] term]|eN] eqn:EN; cbn [bind] in *.
    - destruct LA as (-> & -> & -> & -> & B1 & B2 & B3); try congruence.
      cbn [post_process] in *.
      cbn [erase_b b_spends_rev] in *.
      rewrite <- map_fast_rev in *.
      change (validate_conditions H (erase_b rN) (map erase_s (fast_rev (b_spends_rev rN))) sN)
        with (validate_conditions H (erase_b rN) (map erase_s (fast_rev (b_spends_rev rN))) sN) in *.
      rewrite validate_conditions_erase in *.
      destruct (validate_conditions H rN (fast_rev (b_spends_rev rN)) sN) as [[]|]; cbn [bind] in *; [|exact I].
      destruct (validate_signature sig_ok fl (fast_rev (s_pkm_pairs_rev sN))) as [[]|]; cbn [bind] in *; [|exact I].
      cbn [fst]. split; [|split; [reflexivity|split; [reflexivity|]]].
      + unfold neutral, erase_b, set_costs; cbn. rewrite !map_map. reflexivity.
      + exists (clL1 - lL). cbn [set_costs b_cost]. repeat split; try lia.
    - exfalso. apply LA.
      + intro X. discriminate X.
      + intro X. apply NN. injection X as ->. reflexivity.
    - exfalso. apply LA.
      + intro X. apply NL. injection X as ->. reflexivity.
      + intro X. discriminate X.
    - exact I.
  Qed.
End Agree.

Section Main.
  Variable run : sexp -> sexp -> N -> res (N * sexp).
  Variable valid_key : bytes -> bool.
  Variable sig_ok : list (bytes * bytes) -> bool.
  Variable H : bytes -> bytes.
  Variable K : consts.
  Hypothesis run_exact : forall p a b c r, run p a b = Ok (c, r) ->
    forall b', run p a b' = if c <=? b' then Ok (c, r) else Err CostExceeded.
  Hypothesis run_quote : forall x env b, 20 <= b -> run (Pair (Atom [x01]) x) env b = Ok (20, x).
  Hypothesis rom_ok : forall g refs b c out, run ROM (rom_args g refs) b = Ok (c, out) ->
    exists c', rom_eval run H g refs = Ok (c', out) /\ c' <= c.
  Hypothesis rom_err : forall g refs b e, run ROM (rom_args g refs) b = Err e -> e <> CostExceeded ->
    exists e', rom_eval run H g refs = Err e'.

  Notation legacy := (run_block_generator run valid_key sig_ok H K).
  Notation native := (run_block_generator2 run valid_key sig_ok H K).

  Lemma native_unfold program refs max_cost gf :
    native program refs max_cost gf =
    (_ <- check_generator_quote program gf ;;
     prog <- deser_program program ;;
     cost_left <- subtract_cost max_cost (base_cost program prog gf) ;;
     _ <- check_generator_node prog gf ;;
     args <- setup_generator_args refs gf ;;
     native_tail run valid_key sig_ok H K (g_cond gf) prog args cost_left max_cost).
  Proof. reflexivity. Qed.

  Lemma legacy_unfold program refs max_cost gf :
    legacy program refs max_cost gf =
    (_ <- check_generator_quote program gf ;;
     cost_left <- subtract_cost max_cost (nlen program * COST_PER_BYTE) ;;
     prog <- deser_program program ;;
     _ <- check_generator_node prog gf ;;
     _ <- check_simple_refs refs gf ;;
     '(clvm_cost, generator_output) <- run_program run ROM (rom_args prog refs) cost_left ;;
     cost_left1 <- subtract_cost cost_left clvm_cost ;;
     legacy_tail valid_key sig_ok H K (g_cond gf) generator_output cost_left1 max_cost clvm_cost).
  Proof. reflexivity. Qed.

  Lemma quote_node prog gf : g_simple gf = true -> check_generator_node prog gf = Ok tt ->
    exists x, prog = Pair (Atom [x01]) x.
  Proof.
    unfold check_generator_node. intros -> E. cbn in E.
    destruct prog as [|[[|b [|]]|] x]; try discriminate.
    destruct (b2n b =? 1) eqn:B; [|discriminate]. apply N.eqb_eq in B.
    exists x. f_equal. f_equal. f_equal. apply b2n_inj. rewrite B. reflexivity.
  Qed.

  Theorem agree_core program refs max_cost gf :
    max_cost <= COST_MAX ->
    legacy program refs max_cost gf <> Err CostExceeded ->
    native program refs max_cost gf <> Err CostExceeded ->
    agree gf (legacy program refs max_cost gf) (native program refs max_cost gf).
  Proof.
    intros LM. rewrite legacy_unfold, native_unfold. intros NL NN.
    destruct (check_generator_quote program gf) as [[]|]; cbn [bind] in *; [|exact I].
    unfold subtract_cost at 1 in NL. unfold subtract_cost at 1.
    destruct (max_cost <? nlen program * COST_PER_BYTE) eqn:LB; cbn [bind] in *; [exfalso; apply NL; reflexivity|].
    apply N.ltb_ge in LB.
    destruct (deser_program program) as [prog|]; cbn [bind] in *; [|exact I].
    unfold subtract_cost at 1 in NN. unfold subtract_cost at 2.
    destruct (max_cost <? base_cost program prog gf) eqn:LB2; cbn [bind] in *; [exfalso; apply NN; reflexivity|].
    apply N.ltb_ge in LB2.
    destruct (check_generator_node prog gf) as [[]|] eqn:CN; cbn [bind] in *; [|exact I].
    (* block references under SIMPLE_GENERATOR: both paths reject (legacy: check_simple_refs, native: setup_generator_args) *)
    assert (SRC : (check_simple_refs refs gf = Ok tt /\ (g_simple gf = true -> refs = [])) \/
                  ((exists e, check_simple_refs refs gf = Err e) /\ exists e, setup_generator_args refs gf = Err e)).
    { unfold check_simple_refs, setup_generator_args. destruct (g_simple gf); [destruct refs|].
      - left. split; [reflexivity|reflexivity].
      - right. split; eexists; reflexivity.
      - left. split; [reflexivity|discriminate]. }
    destruct SRC as [[CS SR]|[[e1 CS] [e2 SG]]]; rewrite CS in *; cbn [bind] in *;
      [|rewrite SG; cbn [bind]; exact I].
    (* the generator's evaluation is the same with the native arguments and with the ROM's *)
    assert (exists args, setup_generator_args refs gf = Ok args /\
              forall c r, run prog args COST_MAX = Ok (c, r) <-> run prog (generator_args_full refs) COST_MAX = Ok (c, r))
      as (args & SA & SAME).
    { unfold setup_generator_args. destruct (g_simple gf) eqn:SI.
      - rewrite (SR eq_refl). exists nil. split; [reflexivity|].
        destruct (quote_node prog gf SI CN) as [x ->]. intros c r.
        rewrite !run_quote by (unfold COST_MAX; lia). tauto.
      - eexists; split; [reflexivity|]. tauto. }
    rewrite SA in *. cbn [bind] in *.
    set (clL := max_cost - nlen program * COST_PER_BYTE) in *.
    set (clN := max_cost - base_cost program prog gf) in *.
    assert (clN <= COST_MAX) as LclN by (unfold clN; lia).
    destruct (run_program run ROM (rom_args prog refs) clL) as [[c out]|e] eqn:ROMR; cbn [bind] in *.
    - (* the ROM ran *)
      destruct (rom_ok _ _ _ _ _ ROMR) as (c' & RE & Lc').
      unfold rom_eval in RE.
      destruct (run prog (generator_args_full refs) COST_MAX) as [[c0 gout]|] eqn:RG; cbn [bind] in RE; [|discriminate].
      destruct (process_decompressor run H gout) as [[c1 out']|] eqn:PD; cbn [bind] in RE; [|discriminate].
      inversion RE; subst c' out'; clear RE.
      pose proof (proj2 (SAME c0 gout) eq_refl) as RG'.
      unfold subtract_cost at 1 in NL. unfold subtract_cost at 1.
      destruct (clL <? c) eqn:LC; cbn [bind] in *; [exfalso; apply NL; reflexivity|].
      apply N.ltb_ge in LC.
      pose proof (tails_agree run valid_key sig_ok H K run_exact (g_cond gf) prog args gout c0 c1 out (clL - c) clN max_cost c RG' PD NL NN) as TA.
      unfold agree, same_summary.
      destruct (legacy_tail valid_key sig_ok H K (g_cond gf) out (clL - c) max_cost c) as [s1|];
      destruct (native_tail run valid_key sig_ok H K (g_cond gf) prog args clN max_cost) as [s2|]; try exact TA.
      destruct TA as (NEq & E1 & E2 & k & C1 & Lk & Lk2 & C2).
      split; [exact NEq|]. split; [lia|].
      intro NI. unfold clN, clL, base_cost in *. rewrite NI in *. lia.
    - (* the ROM failed *)
      assert (e <> CostExceeded) as ne by (intro; subst; apply NL; reflexivity).
      destruct (rom_err _ _ _ _ ROMR ne) as (e' & RE).
      destruct (native_tail_err run valid_key sig_ok H K run_exact (g_cond gf) prog args refs clN max_cost e' LclN
                  (fun c r => proj1 (SAME c r)) RE) as (e2 & NE).
      rewrite NE. exact I.
  Qed.
End Main.

(* ---------------- the toy oracle satisfies the hypotheses ---------------- *)
Lemma sexp_eqb_refl t : sexp_eqb t t = true.
Proof. induction t; cbn; [apply bytes_eqb_refl|]. rewrite IHt1, IHt2. reflexivity. Qed.

Lemma ROM_head : exists t, ROM = Pair (Atom [x02]) t.
Proof. vm_compute. eauto. Qed.

Lemma quote_not_rom c x : b2n c = 1 -> sexp_eqb (Pair (Atom [c]) x) ROM = false.
Proof.
  intro E. destruct ROM_head as [t ->]. cbn. unfold byte_eqb. rewrite E. reflexivity.
Qed.

Lemma atoms_of_refs refs : atoms_of (list_to_sexp (map Atom refs)) = refs.
Proof. induction refs; cbn; [reflexivity|]. rewrite IHrefs. reflexivity. Qed.

Lemma toy_sub_run H p a b v : toy_sub p a b = Ok v -> toy_run H p a b = Ok v.
Proof.
  unfold toy_run, toy_sub. intro E. destruct p as [|[[|c [|]]|] x]; cbv beta iota in *; try discriminate E.
  destruct (b2n c =? 1) eqn:E1; [|discriminate E]. apply N.eqb_eq in E1.
  rewrite (quote_not_rom c x E1). exact E.
Qed.

Section Mono.
  Variables run1 run2 : sexp -> sexp -> N -> res (N * sexp).
  Variable H : bytes -> bytes.
  Hypothesis sub : forall p a b v, run1 p a b = Ok v -> run2 p a b = Ok v.

  Lemma recurse_mono t v : recurse run1 H t = Ok v -> recurse run2 H t = Ok v.
  Proof.
    revert v. induction t as [b|sp _ tl IH]; intros v E; cbn in *; [exact E|].
    unfold process_coin_spend in *.
    destruct (rom_destructure sp) as [[[[[p pz] am] sol] ex]|]; cbn [bind] in *; [|discriminate].
    destruct (run1 pz sol COST_MAX) as [[c conds]|] eqn:R1; cbn [bind] in *; [|discriminate].
    rewrite (sub _ _ _ _ R1). cbn [bind].
    destruct (recurse run1 H tl) as [[c2 r]|]; cbn [bind] in *; [|discriminate].
    rewrite (IH _ eq_refl). cbn [bind]. exact E.
  Qed.

  Lemma rom_eval_mono g refs v : rom_eval run1 H g refs = Ok v -> rom_eval run2 H g refs = Ok v.
  Proof.
    unfold rom_eval. intro E.
    destruct (run1 g (generator_args_full refs) COST_MAX) as [[c0 out]|] eqn:R1; cbn [bind] in *; [|discriminate].
    rewrite (sub _ _ _ _ R1). cbn [bind].
    unfold process_decompressor in *. destruct out as [|cs ex]; [discriminate|].
    destruct (recurse run1 H cs) as [[c l]|] eqn:RC; cbn [bind] in *; [|discriminate].
    rewrite (recurse_mono _ _ RC). cbn [bind]. exact E.
  Qed.
End Mono.

Section ToyOk.
  Variable H : bytes -> bytes.

  Lemma toy_exact : forall p a b c r, toy_run H p a b = Ok (c, r) ->
    forall b', toy_run H p a b' = if c <=? b' then Ok (c, r) else Err CostExceeded.
  Proof.
    intros p a b c r E b'. unfold toy_run in *.
    destruct (sexp_eqb p ROM).
    - repeat match type of E with
             | context [match ?x with _ => _ end] => destruct x; try discriminate E
             end.
      inversion E; subst. reflexivity.
    - unfold toy_sub in *. destruct p as [|[[|k [|]]|] x]; cbv beta iota in *; try discriminate E.
      destruct (b2n k =? 1); [|discriminate E]. destruct (20 <=? b); [|discriminate E].
      inversion E; subst. reflexivity.
  Qed.

  Lemma toy_quote : forall x env b, 20 <= b -> toy_run H (Pair (Atom [x01]) x) env b = Ok (20, x).
  Proof.
    intros x env b L. unfold toy_run. rewrite (quote_not_rom x01 x eq_refl). cbn.
    apply N.leb_le in L. rewrite L. reflexivity.
  Qed.

  Lemma toy_rom_ok : forall g refs b c out, toy_run H ROM (rom_args g refs) b = Ok (c, out) ->
    exists c', rom_eval (toy_run H) H g refs = Ok (c', out) /\ c' <= c.
  Proof.
    intros g refs b c out E. unfold toy_run at 1 in E. rewrite sexp_eqb_refl in E.
    unfold rom_args in E. cbn [nil] in E. rewrite atoms_of_refs in E.
    destruct (rom_eval toy_sub H g refs) as [[c' o]|] eqn:RE; [|discriminate E].
    destruct (c' + TOY_ROM_OVERHEAD <=? b); [|discriminate E]. inversion E; subst.
    exists c'. split; [|lia].
    apply (rom_eval_mono toy_sub (toy_run H) H (toy_sub_run H) _ _ _ RE).
  Qed.

  Lemma toy_rom_err : forall g refs b e, toy_run H ROM (rom_args g refs) b = Err e -> e <> CostExceeded ->
    exists e', rom_eval (toy_run H) H g refs = Err e'.
  Proof.
    intros g refs b e E ne. exfalso. apply ne. unfold toy_run in E. rewrite sexp_eqb_refl in E.
    unfold rom_args in E. cbn [nil] in E.
    destruct (rom_eval toy_sub H g (atoms_of (list_to_sexp (map Atom refs)))) as [[c' o]|]; [|congruence].
    destruct (c' + TOY_ROM_OVERHEAD <=? b); congruence.
  Qed.
End ToyOk.

(* ---------------- statements ---------------- *)
Lemma agree_thm run valid_key sig_ok H K : run_oracle_ok run H ->
  forall program refs max_cost gf,
    max_cost <= COST_MAX ->
    run_block_generator run valid_key sig_ok H K program refs max_cost gf <> Err CostExceeded ->
    run_block_generator2 run valid_key sig_ok H K program refs max_cost gf <> Err CostExceeded ->
    ((exists s1, run_block_generator run valid_key sig_ok H K program refs max_cost gf = Ok s1) <->
     (exists s2, run_block_generator2 run valid_key sig_ok H K program refs max_cost gf = Ok s2)) /\
    (forall s1 s2, run_block_generator run valid_key sig_ok H K program refs max_cost gf = Ok s1 ->
                   run_block_generator2 run valid_key sig_ok H K program refs max_cost gf = Ok s2 ->
                   same_summary gf s1 s2).
Proof.
  intros (HE & HQ & HO & HR) program refs max_cost gf LM NL NN.
  pose proof (agree_core run valid_key sig_ok H K HE HQ HO HR program refs max_cost gf LM NL NN) as A.
  unfold agree in A.
  destruct (run_block_generator run valid_key sig_ok H K program refs max_cost gf) as [s1|e1];
  destruct (run_block_generator2 run valid_key sig_ok H K program refs max_cost gf) as [s2|e2]; try contradiction.
  - split; [split; eauto|]. intros ? ? E1 E2. inversion E1; inversion E2; subst. exact A.
  - split; [split; intros [? X]; discriminate X|]. intros ? ? X; discriminate X.
Qed.

Lemma asymmetry_thm run valid_key sig_ok H K : run_oracle_ok run H ->
  forall program refs max_cost gf s2,
    max_cost <= COST_MAX ->
    run_block_generator2 run valid_key sig_ok H K program refs max_cost gf = Ok s2 ->
    run_block_generator run valid_key sig_ok H K program refs max_cost gf = Err CostExceeded \/
    exists s1, run_block_generator run valid_key sig_ok H K program refs max_cost gf = Ok s1 /\ same_summary gf s1 s2.
Proof.
  intros OK program refs max_cost gf s2 LM E2.
  destruct (run_block_generator run valid_key sig_ok H K program refs max_cost gf) as [s1|e1] eqn:E1.
  - right. exists s1. split; [reflexivity|].
    assert (NL : run_block_generator run valid_key sig_ok H K program refs max_cost gf <> Err CostExceeded) by congruence.
    assert (NN : run_block_generator2 run valid_key sig_ok H K program refs max_cost gf <> Err CostExceeded) by congruence.
    exact (proj2 (agree_thm run valid_key sig_ok H K OK program refs max_cost gf LM NL NN) s1 s2 E1 E2).
  - destruct e1; try (left; reflexivity);
    exfalso;
    match goal with E1 : _ = Err ?e |- _ =>
      assert (NL : run_block_generator run valid_key sig_ok H K program refs max_cost gf <> Err CostExceeded) by congruence;
      assert (NN : run_block_generator2 run valid_key sig_ok H K program refs max_cost gf <> Err CostExceeded) by congruence;
      destruct (proj2 (proj1 (agree_thm run valid_key sig_ok H K OK program refs max_cost gf LM NL NN)) (ex_intro _ s2 E2)) as [s1 X];
      congruence
    end.
Qed.

(* list shapes *)
Lemma spend_shape spend :
  (exists x, extract_5 spend = Ok x) <-> (exists y, rom_destructure spend = Ok y).
Proof.
  destruct spend as [|p [|pz [|am [|sol ex]]]]; cbn; split; intros [? X]; try discriminate X; eauto.
Qed.

Lemma non_nil_terminator_rom run H t : terminator t <> [] -> exists e, recurse run H t = Err e.
Proof.
  induction t as [b|sp _ tl IH]; cbn; intro NT.
  - destruct b; [congruence|eauto].
  - destruct (process_coin_spend run H sp) as [[c s]|]; cbn [bind]; [|eauto].
    destruct (IH NT) as [e ->]. cbn [bind]. eauto.
Qed.

Lemma non_nil_terminator_native run vk H K fl t : forall ret st m ex sl r s l e' term,
  native_loop run vk H K t ret st m ex sl fl = Ok (r, s, l, e', term) -> term = Atom (terminator t).
Proof.
  induction t as [b|sp _ tl IH]; intros ret st m ex sl r s l e' term E; cbn in *.
  - inversion E. reflexivity.
  - destruct sl as [[|slp]|]; [discriminate E| |].
    all: destruct (extract_5 sp) as [[[[[p pz] am] sol] ext]|]; cbn [bind] in E; [|discriminate E];
      destruct (run_program run pz sol m) as [[c conds]|]; cbn [bind] in E; [|discriminate E];
      destruct (subtract_cost m c) as [m1|]; cbn [bind] in E; [|discriminate E];
      destruct (process_single_spend vk H K fl VEmpty ret st p (Atom (th H pz)) am conds m1 c) as [[[r1 s1] l1]|];
        cbn [bind] in E; [|discriminate E];
      eapply IH; exact E.
Qed.

Lemma toy_oracle_ok H : run_oracle_ok (toy_run H) H.
Proof.
  split; [exact (toy_exact H)|split; [exact (toy_quote H)|split; [exact (toy_rom_ok H)|exact (toy_rom_err H)]]].
Qed.

Lemma interned_cost_refuted :
  exists run H, run_oracle_ok run H /\
  exists vk sig K program refs max_cost gf s1 s2,
    g_interned gf = true /\ max_cost <= COST_MAX /\
    run_block_generator run vk sig H K program refs max_cost gf = Ok s1 /\
    run_block_generator2 run vk sig H K program refs max_cost gf = Ok s2 /\
    b_cost (fst (fst s1)) < b_cost (fst (fst s2)).
Proof.
  exists (toy_run Hnull), Hnull. split; [apply toy_oracle_ok|].
  exists (fun _ => false), (fun _ => true), K0, EMPTY_GENERATOR, [], 11000000000,
    (gflags_of_bits FLAG_INTERNED_GENERATOR).
  eexists. eexists.
  split; [reflexivity|]. split; [unfold COST_MAX; lia|].
  split; [vm_compute; reflexivity|]. split; [vm_compute; reflexivity|].
  vm_compute. reflexivity.
Qed.

(* non-vacuity: an oracle satisfying the hypotheses under which a generator with one spend is
   accepted by both paths (so C07_agree's premises are satisfiable with a non-trivial conclusion) *)
Lemma hypotheses_satisfiable :
  exists run H, run_oracle_ok run H /\
  exists vk sig K program refs max_cost gf s1 s2,
    max_cost <= COST_MAX /\
    run_block_generator run vk sig H K program refs max_cost gf = Ok s1 /\
    run_block_generator2 run vk sig H K program refs max_cost gf = Ok s2 /\
    length (snd (fst s1)) = 1%nat /\ b_cost (fst (fst s2)) < b_cost (fst (fst s1)).
Proof.
  exists (toy_run sha256), sha256. split; [apply toy_oracle_ok|].
  exists (fun _ => false), (fun _ => true), K0, ONE_SPEND_GENERATOR, [], 11000000000, (gflags_of_bits 0).
  eexists. eexists.
  split; [unfold COST_MAX; lia|].
  split; [vm_compute; reflexivity|]. split; [vm_compute; reflexivity|].
  split; vm_compute; reflexivity.
Qed.
