(* Chain/GenToy.v — a small concrete CLVM oracle: only quoted programs evaluate ((q . x) -> x at
   cost 20), and the generator ROM evaluates to its Gallina reading plus a fixed overhead.  Used for
   non-vacuity examples and for the witnesses of the refuted clauses.  Definitions only. *)
From ChiaV.Base Require Import Bytes.
From ChiaV.Clvm Require Import Sexp.
From ChiaV.Cond Require Import Model.
From ChiaV.Chain Require Import Backref Rom.
Open Scope N_scope.

Definition toy_sub (p a : sexp) (b : N) : res (N * sexp) :=
  match p with
  | Pair (Atom [c]) x =>
      if b2n c =? 1 then (if 20 <=? b then Ok (20, x) else Err CostExceeded) else Err GeneratorRuntimeError
  | _ => Err GeneratorRuntimeError
  end.

Fixpoint atoms_of (t : sexp) : list bytes :=
  match t with
  | Pair (Atom b) r => b :: atoms_of r
  | _ => []
  end.

Definition TOY_ROM_OVERHEAD : N := 1000.

Definition toy_run (H : bytes -> bytes) (p a : sexp) (b : N) : res (N * sexp) :=
  if sexp_eqb p ROM then
    match a with
    | Pair g (Pair (Pair r (Atom [])) (Atom [])) =>
        match rom_eval toy_sub H g (atoms_of r) with
        | Ok (c', out) => if c' + TOY_ROM_OVERHEAD <=? b then Ok (c' + TOY_ROM_OVERHEAD, out) else Err CostExceeded
        | Err _ => Err CostExceeded
        end
    | _ => Err CostExceeded
    end
  else toy_sub p a b.
