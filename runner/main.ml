(* vrun — generic driver for the extracted model runner (trusted, ~40 lines).
   Reads case lines on stdin, prints one result line per case on stdout.
   Conversions int <-> Coq N are the only glue. *)
module V = Vrun_core

let rec pos_of_int (i : int) : V.positive =
  if i = 1 then V.XH
  else if i land 1 = 0 then V.XO (pos_of_int (i lsr 1))
  else V.XI (pos_of_int (i lsr 1))

let n_of_int (i : int) : V.n = if i = 0 then V.N0 else V.Npos (pos_of_int i)

let rec int_of_pos (p : V.positive) : int =
  match p with V.XH -> 1 | V.XO q -> 2 * int_of_pos q | V.XI q -> 2 * int_of_pos q + 1

let int_of_n (x : V.n) : int = match x with V.N0 -> 0 | V.Npos p -> int_of_pos p

let coq_of_string (s : string) : V.n list =
  let r = ref [] in
  for i = String.length s - 1 downto 0 do
    r := n_of_int (Char.code s.[i]) :: !r
  done;
  !r

let string_of_coq (l : V.n list) : string =
  let b = Buffer.create 256 in
  List.iter (fun x -> Buffer.add_char b (Char.chr (int_of_n x))) l;
  Buffer.contents b

let () =
  try
    while true do
      let line = input_line stdin in
      let out =
        try string_of_coq (V.dispatch_n (coq_of_string line))
        with Stack_overflow -> "ERR-STACK-OVERFLOW" in
      print_string out;
      print_char '\n'
    done
  with End_of_file -> ()
