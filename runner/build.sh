#!/bin/sh
# build the extracted model runner of one unit:
#   .cache/extract/<unit>/vrun_core.ml(i) + runner/main.ml -> .cache/vrun_<unit>
set -e
u="$1"
cd /verif/.cache/extract/$u
cp /verif/runner/main.ml .
if [ ! -x ../../vrun_$u ] || [ vrun_core.ml -nt ../../vrun_$u ] || [ main.ml -nt ../../vrun_$u ]; then
  ocamlfind ocamlopt -w -a -O2 -o ../../vrun_$u.new vrun_core.mli vrun_core.ml main.ml 2>/dev/null || \
  ocamlfind ocamlopt -w -a -o ../../vrun_$u.new vrun_core.mli vrun_core.ml main.ml
  mv ../../vrun_$u.new ../../vrun_$u
fi
