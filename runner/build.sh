#!/bin/sh
# build the extracted model runner: .cache/extract/vrun_core.ml(i) + runner/main.ml -> .cache/vrun
set -e
cd /verif/.cache/extract
cp /verif/runner/main.ml .
if [ ! -x ../vrun ] || [ vrun_core.ml -nt ../vrun ] || [ main.ml -nt ../vrun ]; then
  ocamlfind ocamlopt -w -a -o ../vrun.new vrun_core.mli vrun_core.ml main.ml
  mv ../vrun.new ../vrun
fi
