#!/bin/sh
# MANIFEST.setup_cmd — build the framework offline from files on disk.
set -e
cd /verif
export CARGO_NET_OFFLINE=true
mkdir -p .cache/extract evidence replays
python3 translator/rs2v.py || true          # a broken tie is reported by the checks, not by setup
for f in coq/Run/*Extract.v; do u=$(basename $f Extract.v | tr A-Z a-z); mkdir -p .cache/extract/$u; done
bin/cm                                    # full .vo build of the whole development
for f in coq/Run/*Extract.v; do u=$(basename $f Extract.v | tr A-Z a-z); runner/build.sh $u; done
cp /repo/Cargo.lock harness/Cargo.lock
( cd harness && cargo build --release --offline --features hooks --bins )
echo setup-ok
