#!/bin/sh
# MANIFEST.setup_cmd — build the framework offline from files on disk.
set -e
cd /verif
export CARGO_NET_OFFLINE=true
mkdir -p .cache/extract evidence replays
python3 translator/rs2v.py || true          # a broken tie is reported by the checks, not by setup
bin/cm                                    # full .vo build of the whole development
runner/build.sh                           # extracted model runner
cp /repo/Cargo.lock harness/Cargo.lock
( cd harness && cargo build --release --offline --features hooks )
echo setup-ok
