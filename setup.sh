#!/bin/sh
# MANIFEST.setup_cmd — build the framework offline from files on disk.
# Every check rebuilds what it needs itself; setup only warms the caches, so a unit that fails to
# build here is reported by its own check and does not stop the others (-k / || true).
cd /verif
export CARGO_NET_OFFLINE=true
mkdir -p .cache/extract evidence replays
python3 translator/rs2v.py || true          # a broken tie is reported by the checks, not by setup
for f in coq/Run/*Extract.v; do u=$(basename $f Extract.v | tr A-Z a-z); mkdir -p .cache/extract/$u; done
CM_TIMEOUT=3000 bin/cm -k || true         # full .vo build of the whole development
for f in coq/Run/*Extract.v; do u=$(basename $f Extract.v | tr A-Z a-z); runner/build.sh $u || true; done
cp /repo/Cargo.lock harness/Cargo.lock
( cd harness && for b in src/bin/vh_*.rs; do n=$(basename $b .rs); [ "$n" = vh_wirejson ] && continue; cargo build --release --offline --features hooks --bin $n || true; done )
# C20: the harness with the repository's own pyo3 bindings in an embedded CPython; own target dir (other feature set)
( cd harness && CARGO_TARGET_DIR=/verif/.cache/target_py cargo build --release --offline --features hooks,py --bin vh_wirejson || true )
echo setup-ok
