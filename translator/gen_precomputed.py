"""Gen/Precomputed.v and Gen/CurryFF.v — tables, constants and straight-line hash expressions of
the tree-hash code (property C17).

  clvm-utils/src/tree_hash.rs       PRECOMPUTED_HASHES (all entries), the th! macro, the three visit
                                    sentinels of TreeCache, the prefix bytes of tree_hash_atom / tree_hash_pair
  clvm-utils/src/curry_tree_hash.rs the operator atoms (q, a, c) and the nil / initial-args atoms
  chia-consensus/src/fast_forward.rs  OP_QUOTE/OP_APPLY/OP_CONS, curry_single_arg and curry_and_treehash,
                                    which are pure expression trees over tree_hash_atom / tree_hash_pair:
                                    translated expression by expression into Gallina

Fail closed: every function body is matched against a strict shape; anything else is a broken tie."""
import re
from tcommon import *

U32_MAX = (1 << 32) - 1


def _bytelit(n):
    if not (0 <= n <= 255):
        raise TieBroken("byte literal out of range: %r" % n)
    return "x%02x" % n


def _hexbytes(h):
    return "[" + "; ".join("x" + h[i:i + 2].lower() for i in range(0, len(h), 2)) + "]"


def _u32_expr(txt, what):
    t = norm_ws(txt)
    m = re.match(r"^u32::MAX(?: - ([0-9]+))?$", t)
    if not m:
        raise TieBroken("%s: unexpected constant expression %r" % (what, t))
    return U32_MAX - (int(m.group(1)) if m.group(1) else 0)


# ----------------------------------------------------------------- tree_hash.rs
def _tree_hash_rs(repo):
    src = strip_comments(read(repo, "crates/clvm-utils/src/tree_hash.rs"))
    # macro th!
    m = re.search(r"macro_rules! th \{(.*?)\n\}", src, flags=re.S)
    if not m or norm_ws(m.group(1)) != "($hash:expr) => { TreeHash::new(hex!($hash)) };":
        raise TieBroken("tree_hash.rs: macro th! changed")
    m = re.search(r"pub const PRECOMPUTED_HASHES: \[TreeHash; ([0-9]+)\] = \[(.*?)\];", src, flags=re.S)
    if not m:
        raise TieBroken("tree_hash.rs: PRECOMPUTED_HASHES not found")
    n = int(m.group(1))
    body = norm_ws(m.group(2))
    hashes = []
    rest = body
    ent = re.compile(r'^th!\("([0-9a-fA-F]{64})"\),?\s*')
    while rest:
        e = ent.match(rest)
        if not e:
            raise TieBroken("tree_hash.rs: unexpected PRECOMPUTED_HASHES entry: %r" % rest[:60])
        hashes.append(e.group(1))
        rest = rest[e.end():]
    if len(hashes) != n:
        raise TieBroken("tree_hash.rs: PRECOMPUTED_HASHES declares %d entries, found %d" % (n, len(hashes)))
    consts = {}
    for name in ("NOT_VISITED", "SEEN_ONCE", "SEEN_MULTIPLE"):
        m = re.search(r"const %s: u32 = ([^;]+);" % name, src)
        if not m:
            raise TieBroken("tree_hash.rs: const %s not found" % name)
        consts[name] = _u32_expr(m.group(1), name)
    # tree_hash_atom / tree_hash_pair
    b = norm_ws(fn_body(src, r"pub fn tree_hash_atom\(bytes: &\[u8\]\) -> TreeHash \{", "tree_hash_atom"))
    m = re.match(r"^let mut sha256 = Sha256::new\(\); sha256\.update\(\[([0-9]+)\]\); sha256\.update\(bytes\); "
                 r"TreeHash::new\(sha256\.finalize\(\)\)$", b)
    if not m:
        raise TieBroken("tree_hash_atom: unexpected body %r" % b[:200])
    atom_prefix = int(m.group(1))
    b = norm_ws(fn_body(src, r"pub fn tree_hash_pair\(first: TreeHash, rest: TreeHash\) -> TreeHash \{", "tree_hash_pair"))
    m = re.match(r"^let mut sha256 = Sha256::new\(\); sha256\.update\(\[([0-9]+)\]\); sha256\.update\(first\); "
                 r"sha256\.update\(rest\); TreeHash::new\(sha256\.finalize\(\)\)$", b)
    if not m:
        raise TieBroken("tree_hash_pair: unexpected body %r" % b[:200])
    pair_prefix = int(m.group(1))
    # the table is indexed by the small-atom value and guarded by its length in both routines
    guard = "if (val as usize) < PRECOMPUTED_HASHES.len() { hashes.push(PRECOMPUTED_HASHES[val as usize]); } else { hashes.push(tree_hash_atom(a.atom(node).as_ref())); }"
    if norm_ws(src).count(guard) != 2:
        raise TieBroken("tree_hash.rs: the small-atom table lookup is not the expected guarded index (x2)")
    return hashes, consts, atom_prefix, pair_prefix


# ----------------------------------------------------------------- curry_tree_hash.rs
def _curry_rs(repo):
    src = strip_comments(read(repo, "crates/clvm-utils/src/curry_tree_hash.rs"))
    b = norm_ws(fn_body(src, r"pub fn curry_tree_hash\(program_hash: TreeHash, arg_hashes: &\[TreeHash\]\) -> TreeHash \{",
                        "curry_tree_hash"))
    m = re.match(r"^let nil = tree_hash_atom\(&\[\]\); let op_q = tree_hash_atom\(&\[([0-9]+)\]\); "
                 r"let op_a = tree_hash_atom\(&\[([0-9]+)\]\); let op_c = tree_hash_atom\(&\[([0-9]+)\]\); "
                 r"let quoted_program = tree_hash_pair\(op_q, program_hash\); "
                 r"let mut quoted_args = tree_hash_atom\(&\[([0-9]+)\]\); ", b)
    if not m:
        raise TieBroken("curry_tree_hash: unexpected preamble %r" % b[:200])
    return [int(x) for x in m.groups()]


# ----------------------------------------------------------------- fast_forward.rs (expression translator)
TOK = re.compile(r"\s*([A-Za-z_][A-Za-z0-9_]*|[0-9]+|[()\[\],.&*;=:])")


def _tokens(txt):
    out, i = [], 0
    txt = txt.strip()
    while i < len(txt):
        m = TOK.match(txt, i)
        if not m:
            raise TieBroken("fast_forward.rs: cannot tokenise %r" % txt[i:i + 40])
        out.append(m.group(1))
        i = m.end()
    return out


class _P:
    """recursive-descent translator of the hash expressions into Gallina terms"""

    def __init__(self, toks, consts, fields, idents):
        self.t, self.i = toks, 0
        self.consts, self.fields, self.idents = consts, fields, set(idents)

    def peek(self, k=0):
        return self.t[self.i + k] if self.i + k < len(self.t) else None

    def eat(self, x):
        if self.peek() != x:
            raise TieBroken("fast_forward.rs: expected %r, found %r (at token %d)" % (x, self.peek(), self.i))
        self.i += 1

    def into_suffix(self):
        if self.peek() == "." and self.peek(1) == "into":
            self.eat("."); self.eat("into"); self.eat("("); self.eat(")")
            return True
        return False

    def field(self):
        # singleton_struct.<field>
        self.eat("singleton_struct"); self.eat(".")
        f = self.peek()
        if f not in self.fields:
            raise TieBroken("fast_forward.rs: unknown SingletonStruct field %r" % f)
        self.i += 1
        return f

    def expr(self):
        t = self.peek()
        if t == "(":                       # (*ident).into()
            self.eat("("); self.eat("*")
            name = self.peek()
            if name not in self.idents:
                raise TieBroken("fast_forward.rs: unknown identifier %r" % name)
            self.i += 1
            self.eat(")")
            if not self.into_suffix():
                raise TieBroken("fast_forward.rs: expected .into() after dereference")
            return name
        if t == "singleton_struct":        # singleton_struct.f.into()  : the 32 bytes as a TreeHash
            f = self.field()
            if not self.into_suffix():
                raise TieBroken("fast_forward.rs: expected .into() after field %s" % f)
            return f
        if t in ("tree_hash_pair", "curry_single_arg"):
            self.i += 1
            self.eat("(")
            a = self.expr(); self.eat(",")
            b = self.expr()
            if self.peek() == ",":
                self.eat(",")
            self.eat(")")
            self.into_suffix()
            return "(%s %s %s)" % (t, a, b)
        if t == "tree_hash_atom":
            self.i += 1
            self.eat("("); self.eat("&")
            if self.peek() == "[":
                self.eat("[")
                items = []
                while self.peek() != "]":
                    x = self.peek()
                    if x in self.consts:
                        items.append(x)
                    elif x is not None and x.isdigit():
                        items.append(_bytelit(int(x)))
                    else:
                        raise TieBroken("fast_forward.rs: unexpected atom byte %r" % x)
                    self.i += 1
                    if self.peek() == ",":
                        self.eat(",")
                self.eat("]")
                arg = "[" + "; ".join(items) + "]"
            else:
                arg = self.field()
            if self.peek() == ",":
                self.eat(",")
            self.eat(")")
            return "(tree_hash_atom %s)" % arg
        if t in self.idents:
            self.i += 1
            return t
        raise TieBroken("fast_forward.rs: unexpected token %r in hash expression" % t)


def _ff_rs(repo):
    src = strip_comments(read(repo, "crates/chia-consensus/src/fast_forward.rs"))
    consts = {}
    for name in ("OP_QUOTE", "OP_APPLY", "OP_CONS"):
        m = re.search(r"const %s: u8 = ([0-9]+);" % name, src)
        if not m:
            raise TieBroken("fast_forward.rs: const %s not found" % name)
        consts[name] = int(m.group(1))
    fields = ["mod_hash", "launcher_id", "launcher_puzzle_hash"]
    # SingletonStruct must still consist of exactly these three fields in this order
    ss = strip_comments(read(repo, "crates/chia-puzzle-types/src/puzzles/singleton.rs"))
    m = re.search(r"pub struct SingletonStruct \{(.*?)\}", ss, flags=re.S)
    if not m or re.findall(r"pub ([a-z_]+):", m.group(1)) != fields:
        raise TieBroken("singleton.rs: SingletonStruct fields changed")
    # curry_single_arg: one expression
    b = fn_body(src, r"fn curry_single_arg\(arg_hash: TreeHash, rest: TreeHash\) -> TreeHash \{", "curry_single_arg")
    p = _P(_tokens(b), consts, fields, ["arg_hash", "rest"])
    single = p.expr()
    if p.peek() is not None:
        raise TieBroken("curry_single_arg: trailing tokens")
    # curry_and_treehash: let-bindings then one expression
    b = fn_body(src, r"fn curry_and_treehash\(inner_puzzle_hash: &Bytes32, singleton_struct: &SingletonStruct\) -> Bytes32 \{",
                "curry_and_treehash")
    toks = _tokens(b)
    p = _P(toks, consts, fields, ["inner_puzzle_hash"])
    lets = []
    while p.peek() == "let":
        p.eat("let")
        name = p.peek()
        if not re.match(r"^[a-z_][a-z0-9_]*$", name or ""):
            raise TieBroken("curry_and_treehash: unexpected let pattern %r" % name)
        p.i += 1
        p.eat("=")
        e = p.expr()
        p.eat(";")
        lets.append((name, e))
        p.idents.add(name)
    final = p.expr()
    if p.peek() is not None:
        raise TieBroken("curry_and_treehash: trailing tokens %r" % p.t[p.i:p.i + 5])
    return consts, single, lets, final


def generate(repo):
    hashes, consts, atom_prefix, pair_prefix = _tree_hash_rs(repo)
    cq = _curry_rs(repo)
    out = HEADER % "clvm-utils/src/tree_hash.rs, curry_tree_hash.rs"
    out += "From ChiaV.Base Require Import Bytes.\nOpen Scope N_scope.\n\n"
    out += "(* PRECOMPUTED_HASHES, indexed by the value of a small atom *)\n"
    out += "Definition precomputed_hashes : list bytes :=\n  [ " + ";\n    ".join(_hexbytes(h) for h in hashes) + " ].\n\n"
    out += "(* TreeCache visit sentinels (u32) *)\n"
    for k in ("NOT_VISITED", "SEEN_ONCE", "SEEN_MULTIPLE"):
        out += "Definition %s : N := %d.\n" % (k, consts[k])
    out += "\n(* first byte fed to SHA-256 by tree_hash_atom / tree_hash_pair *)\n"
    out += "Definition atom_prefix_byte : byte := %s.\nDefinition pair_prefix_byte : byte := %s.\n" % (
        _bytelit(atom_prefix), _bytelit(pair_prefix))
    out += "\n(* curry_tree_hash: the atoms q, a, c and the initial argument list *)\n"
    out += "Definition curry_op_q : bytes := [%s].\nDefinition curry_op_a : bytes := [%s].\n" % (_bytelit(cq[0]), _bytelit(cq[1]))
    out += "Definition curry_op_c : bytes := [%s].\nDefinition curry_args_init : bytes := [%s].\n" % (_bytelit(cq[2]), _bytelit(cq[3]))

    ffc, single, lets, final = _ff_rs(repo)
    ff = HEADER % "chia-consensus/src/fast_forward.rs (curry_single_arg, curry_and_treehash)"
    ff += "From ChiaV.Base Require Import Bytes.\n\n"
    ff += "Section FF.\n  Variable tree_hash_atom : bytes -> bytes.\n  Variable tree_hash_pair : bytes -> bytes -> bytes.\n\n"
    for k in ("OP_QUOTE", "OP_APPLY", "OP_CONS"):
        ff += "  Definition %s : byte := %s.\n" % (k, _bytelit(ffc[k]))
    ff += "\n  Definition curry_single_arg (arg_hash rest : bytes) : bytes :=\n    %s.\n\n" % single
    ff += "  (* inner_puzzle_hash and the three fields of singleton_struct; Bytes32 <-> TreeHash conversions are the identity *)\n"
    ff += "  Definition curry_and_treehash (inner_puzzle_hash mod_hash launcher_id launcher_puzzle_hash : bytes) : bytes :=\n"
    for name, e in lets:
        ff += "    let %s := %s in\n" % (name, e)
    ff += "    %s.\nEnd FF.\n" % final
    return {"Precomputed.v": out, "CurryFF.v": ff}
