"""Gen/Opcodes.v — condition opcodes, condition costs, the one-byte whitelist of parse_opcode,
flag bits and the spend-flag / limit constants of conditions.rs and messages.rs.

Shape checks: parse_opcode's body must be exactly the known shape with the extracted whitelist;
calculate_cost_table's body must be textually (whitespace-normalised) the transcribed algorithm
(Cond/CostTable.v is its Gallina transcription); compute_unknown_condition_cost likewise."""
import re
from tcommon import *

COST_TABLE_BODY = ("let (a, b) = (17, 16); let mut s = [0; 256]; let (mut num, mut den) = (100_u64, 1_u64); "
                   "let max = 1 << 59; let mut idx = 0; while idx < 256 { let v = num / den; let mut power_of_ten = 1000; "
                   "while power_of_ten < v { power_of_ten *= 10; } power_of_ten /= 1000; "
                   "s[idx] = (v / power_of_ten) * power_of_ten; num *= a; den *= b; "
                   "while num > max { num >>= 5; den >>= 5; } idx += 1; } s")
UNKNOWN_COST_BODY = "if op < 256 { 0 } else { COSTS[(op & 0xff) as usize] }"


def generate(repo):
    src = strip_comments(read(repo, "crates/chia-consensus/src/opcodes.rs"))
    out = HEADER % "opcodes.rs, flags.rs, conditions.rs, messages.rs"
    out += "From ChiaV.Base Require Import Bytes.\nOpen Scope N_scope.\n\n"
    ops = re.findall(r"pub const ([A-Z_0-9]+): ConditionOpcode = ([0-9_xa-fA-F]+);", src)
    if len(ops) < 30:
        raise TieBroken("opcodes.rs: expected >= 30 ConditionOpcode constants, found %d" % len(ops))
    names = set()
    for n, v in ops:
        out += "Definition %s : N := %d.\n" % (n, rust_int(v))
        names.add(n)
    out += "\n"
    costs = re.findall(r"pub const ([A-Z_0-9]+): Cost = ([^;]+);", src)
    cnames = {}
    for n, e in costs:
        e = e.strip()
        m = re.fullmatch(r"([A-Z_0-9]+) ([-/+*]) ([A-Z_0-9]+|[0-9_]+)", e)
        if re.fullmatch(r"[0-9_]+", e):
            g = "%d" % rust_int(e)
        elif m:
            a, op, b = m.groups()
            bb = b if b in cnames else "%d" % rust_int(b)
            if a not in cnames:
                raise TieBroken("opcodes.rs: cost expression refers to unknown %s" % a)
            g = "%s %s %s" % (a, op, bb)
        else:
            raise TieBroken("opcodes.rs: unrecognised cost expression %r" % e)
        cnames[n] = g
        out += "Definition %s : N := %s.\n" % (n, g)
    for need in ("CREATE_COIN_COST", "AGG_SIG_COST", "SPEND_COST", "NEW_CREATE_COIN_COST", "MESSAGE_CONDITION_COST", "GENERIC_CONDITION_COST"):
        if need not in cnames:
            raise TieBroken("opcodes.rs: cost constant %s missing" % need)
    out += "\n"
    # cost table algorithm and lookup: textual identity with the transcribed algorithm
    body = norm_ws(fn_body(src, r"const fn calculate_cost_table\(\) -> \[u64; 256\] \{", "calculate_cost_table"))
    if body != COST_TABLE_BODY:
        raise TieBroken("calculate_cost_table changed: %r" % body[:300])
    if not re.search(r"const COSTS: \[Cost; 256\] = calculate_cost_table\(\);", src):
        raise TieBroken("COSTS definition changed")
    body = norm_ws(fn_body(src, r"pub fn compute_unknown_condition_cost\(op: ConditionOpcode\) -> Cost \{", "compute_unknown_condition_cost"))
    if body != UNKNOWN_COST_BODY:
        raise TieBroken("compute_unknown_condition_cost changed: %r" % body[:200])
    # parse_opcode
    body = norm_ws(fn_body(src, r"pub fn parse_opcode\(\s*a: &Allocator,\s*op: NodePtr,\s*_flags: crate::flags::ConsensusFlags,\s*\) -> Option<ConditionOpcode> \{", "parse_opcode"))
    m = re.fullmatch(
        r"let buf = match a\.sexp\(op\) \{ SExp::Atom => a\.atom\(op\), SExp::Pair\(\.\.\) => return None, \}; "
        r"let buf = buf\.as_ref\(\); if buf\.len\(\) == 2 \{ if buf\[0\] == 0 \{ None \} else \{ "
        r"Some\(ConditionOpcode::from_be_bytes\(buf\.try_into\(\)\.unwrap\(\)\)\) \} \} else if buf\.len\(\) == 1 \{ "
        r"let b0 = ConditionOpcode::from\(buf\[0\]\); match b0 \{ ([A-Z_0-9| ]+) => Some\(b0\), _ => None, \} \} else \{ None \}", body)
    if not m:
        raise TieBroken("parse_opcode: unexpected shape: %r" % body[:400])
    wl = [x.strip() for x in m.group(1).split("|")]
    for w in wl:
        if w not in names:
            raise TieBroken("parse_opcode whitelist refers to unknown opcode %s" % w)
    out += "Definition opcode_whitelist : list N :=\n  [ " + ";\n    ".join(wl) + " ].\n\n"

    # flags.rs
    fsrc = strip_comments(read(repo, "crates/chia-consensus/src/flags.rs"))
    flags = re.findall(r"const ([A-Z_0-9]+) = (0x[0-9a-fA-F_]+);", fsrc)
    fn = {n: rust_int(v) for n, v in flags}
    for need in ("DONT_VALIDATE_SIGNATURE", "NO_UNKNOWN_CONDS", "COMPUTE_FINGERPRINT", "STRICT_ARGS_COUNT", "COST_CONDITIONS",
                 "SIMPLE_GENERATOR", "LIMIT_SPENDS", "INTERNED_GENERATOR"):
        if need not in fn:
            raise TieBroken("flags.rs: flag %s missing" % need)
    for n, v in flags:
        out += "Definition FLAG_%s : N := %d.\n" % (n, rust_int(v))
    out += "\n"

    # conditions.rs constants
    csrc = strip_comments(read(repo, "crates/chia-consensus/src/conditions.rs"))
    for n, ty in (("ELIGIBLE_FOR_DEDUP", "u32"), ("HAS_RELATIVE_CONDITION", "u32"), ("ELIGIBLE_FOR_FF", "u32"), ("MAX_SPENDS_PER_BLOCK", "usize")):
        m = re.search(r"pub const %s: %s = ([0-9_xa-fA-F]+);" % (n, ty), csrc)
        if not m:
            raise TieBroken("conditions.rs: constant %s missing" % n)
        out += "Definition %s : N := %d.\n" % (n, rust_int(m.group(1)))
    m = re.search(r"let mut announce_countdown: u32 = ([0-9_]+);", csrc)
    if not m:
        raise TieBroken("conditions.rs: announce_countdown initialiser missing")
    out += "Definition ANNOUNCE_LIMIT : N := %d.\n\n" % rust_int(m.group(1))

    msrc = strip_comments(read(repo, "crates/chia-consensus/src/messages.rs"))
    for n in ("PARENT", "PUZZLE", "AMOUNT", "PUZZLEAMOUNT", "PARENTAMOUNT", "PARENTPUZZLE", "COINID"):
        m = re.search(r"pub const %s: u8 = (0b[01_]+);" % n, msrc)
        if not m:
            raise TieBroken("messages.rs: mode constant %s missing" % n)
        out += "Definition MODE_%s : N := %d.\n" % (n, rust_int(m.group(1)))
    return {"Opcodes.v": out}
