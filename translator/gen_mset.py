"""Gen/Mset.v — constants of the Merkle set code (property C12).

  chia-consensus/src/merkle_set.rs   enum NodeType (variant order = repr(u8) discriminants), encode_type,
                                     the 30-byte prefix hashed by `hash`, BLANK, the `depth == N` bottom level,
                                     the `[NodeType::Term as u8]` prefix of a single-leaf root
  chia-consensus/src/merkle_tree.rs  proof tags EMPTY/TERMINAL/MIDDLE/TRUNCATED, EMPTY_NODE_HASH,
                                     the `depth > N` limit of deserialize_proof_impl, hash_leaf prefix,
                                     impl From<ArrayTypes> for NodeType

Shape checks are strict: anything not matching the expected text raises TieBroken."""
import re
from tcommon import *

VARIANTS = ["Empty", "Term", "Mid", "MidDbl"]


def _hex_bytes(h, what, n=None):
    h = re.sub(r"\s+", "", h)
    if not re.fullmatch(r"(?:[0-9a-fA-F]{2})*", h):
        raise TieBroken("%s: not a hex literal: %r" % (what, h[:80]))
    b = bytes.fromhex(h)
    if n is not None and len(b) != n:
        raise TieBroken("%s: expected %d bytes, found %d" % (what, n, len(b)))
    return b


def _coq_bytes(b):
    return "[" + "; ".join("x%02x" % c for c in b) + "]"


def generate(repo):
    out = HEADER % "merkle_set.rs, merkle_tree.rs"
    out += "From ChiaV.Base Require Import Bytes.\nOpen Scope N_scope.\n\n"

    # ---------------------------------------------------------------- merkle_set.rs
    src = strip_comments(read(repo, "crates/chia-consensus/src/merkle_set.rs"))
    m = re.search(r"#\[repr\(u8\)\]\s*#\[derive\(([^)]*)\)\]\s*pub\(crate\) enum NodeType \{([^}]*)\}", src)
    if not m:
        raise TieBroken("enum NodeType (repr(u8)) not found")
    variants = [v.strip() for v in m.group(2).split(",") if v.strip()]
    if variants != VARIANTS:
        raise TieBroken("enum NodeType: variants changed: %r" % variants)
    out += "(* enum NodeType, #[repr(u8)], variants in source order *)\n"
    out += "Inductive node_type := " + " | ".join("Nt" + v for v in variants) + ".\n"
    out += "Definition node_type_u8 (t : node_type) : N :=\n  match t with " + \
           " | ".join("Nt%s => %d" % (v, i) for i, v in enumerate(variants)) + " end.\n\n"

    body = norm_ws(fn_body(src, r"fn encode_type\(t: NodeType\) -> u8 \{", "encode_type"))
    mm = re.fullmatch(r"match t \{ (.*) \}", body)
    if not mm:
        raise TieBroken("encode_type: unexpected shape: %r" % body[:120])
    enc = {}
    rest = mm.group(1).strip()
    arm = re.compile(r"^((?:NodeType::\w+)(?: \| NodeType::\w+)*) => ([0-9]+),?\s*")
    while rest:
        a = arm.match(rest)
        if not a:
            raise TieBroken("encode_type: unexpected arm: %r" % rest[:60])
        for v in a.group(1).split("|"):
            v = v.strip()[len("NodeType::"):]
            if v in enc or v not in VARIANTS:
                raise TieBroken("encode_type: bad variant %r" % v)
            enc[v] = int(a.group(2))
        rest = rest[a.end():]
    if sorted(enc) != sorted(VARIANTS):
        raise TieBroken("encode_type: not all variants covered: %r" % enc)
    out += "Definition encode_type (t : node_type) : N :=\n  match t with " + \
           " | ".join("Nt%s => %d" % (v, enc[v]) for v in VARIANTS) + " end.\n\n"

    body = norm_ws(fn_body(src, r"pub\(crate\) fn hash\(\s*ltype: NodeType,\s*rtype: NodeType,\s*left: &\[u8; 32\],\s*right: &\[u8; 32\],\s*\) -> \[u8; 32\] \{", "merkle_set::hash"))
    mm = re.fullmatch(r'let mut hasher = Sha256::new\(\); hasher\.update\(hex!\( "([0-9a-fA-F]*)" \)\); '
                      r'hasher\.update\(\[encode_type\(ltype\), encode_type\(rtype\)\]\); hasher\.update\(left\); '
                      r'hasher\.update\(right\); hasher\.finalize\(\)', body)
    if not mm:
        raise TieBroken("merkle_set::hash: unexpected shape: %r" % body[:300])
    prefix = _hex_bytes(mm.group(1), "hash prefix")
    out += "(* merkle_set::hash = SHA256(hash_prefix ++ [encode_type l; encode_type r] ++ left ++ right) *)\n"
    out += "Definition hash_prefix : bytes := %s.\n\n" % _coq_bytes(prefix)

    mm = re.search(r'pub\(crate\) const BLANK: \[u8; 32\] =\s*hex!\("([0-9a-fA-F]*)"\);', src)
    if not mm:
        raise TieBroken("BLANK not found")
    out += "Definition BLANK : bytes := %s.\n\n" % _coq_bytes(_hex_bytes(mm.group(1), "BLANK", 32))

    body = norm_ws(fn_body(src, r"fn radix_sort\(range: &mut \[\[u8; 32\]\], depth: u8\) -> \(\[u8; 32\], NodeType\) \{", "radix_sort"))
    lits = set(re.findall(r"depth == ([0-9_]+)", body))
    if len(lits) != 1 or body.count("depth ==") != 2:
        raise TieBroken("radix_sort: expected exactly two `depth == N` tests with one N, found %r" % sorted(lits))
    out += "(* the bottom level special-cased by radix_sort / generate_merkle_tree_recurse (depth is u8) *)\n"
    last_depth = rust_int(lits.pop())
    out += "Definition last_depth : N := %d.\n\n" % last_depth

    body = norm_ws(fn_body(src, r"pub fn compute_merkle_set_root\(leafs: &mut \[\[u8; 32\]\]\) -> \[u8; 32\] \{", "compute_merkle_set_root"))
    if "hasher.update([NodeType::Term as u8]); hasher.update(hash); hasher.finalize()" not in body:
        raise TieBroken("compute_merkle_set_root: single-leaf hashing changed")

    # ---------------------------------------------------------------- merkle_tree.rs
    src = strip_comments(read(repo, "crates/chia-consensus/src/merkle_tree.rs"))
    out += "(* proof serialisation tags (merkle_tree.rs) *)\n"
    for name in ("EMPTY", "TERMINAL", "MIDDLE", "TRUNCATED"):
        mm = re.findall(r"\bconst %s: u8 = ([0-9_xa-fA-F]+);" % name, src)
        if len(mm) != 1:
            raise TieBroken("const %s: u8 not found exactly once" % name)
        out += "Definition TAG_%s : N := %d.\n" % (name, rust_int(mm[0]))
    out += "\n"
    mm = re.search(r'const EMPTY_NODE_HASH: \[u8; 32\] =\s*hex!\("([0-9a-fA-F]*)"\);', src)
    if not mm:
        raise TieBroken("EMPTY_NODE_HASH not found")
    out += "Definition EMPTY_NODE_HASH : bytes := %s.\n\n" % _coq_bytes(_hex_bytes(mm.group(1), "EMPTY_NODE_HASH", 32))

    body = norm_ws(fn_body(src, r"fn deserialize_proof_impl\(&mut self, proof: &\[u8\]\) -> Result<\(\), SetError> \{", "deserialize_proof_impl"))
    lims = re.findall(r"if depth > ([0-9_]+) \{ return Err\(SetError\); \}", body)
    if len(lims) != 1:
        raise TieBroken("deserialize_proof_impl: `if depth > N { return Err }` not found exactly once")
    if "let mut depth = 0;" not in body or body.count("depth += 1;") != 1 or body.count("depth -= 1;") != 1:
        raise TieBroken("deserialize_proof_impl: depth bookkeeping changed")
    out += "(* deserialize_proof_impl rejects a MIDDLE when `depth > proof_depth_limit` *)\n"
    out += "Definition proof_depth_limit : N := %d.\n\n" % rust_int(lims[0])

    body = norm_ws(fn_body(src, r"fn generate_merkle_tree_recurse\(\s*&mut self,\s*range: &mut \[\[u8; 32\]\],\s*depth: u8,\s*\) -> \(\[u8; 32\], NodeType\) \{", "generate_merkle_tree_recurse"))
    lits2 = set(re.findall(r"depth == ([0-9_]+)", body))
    if body.count("depth ==") != 2 or len(lits2) != 1 or rust_int(lits2.pop()) != last_depth:
        raise TieBroken("generate_merkle_tree_recurse: expected exactly two `depth == %d` tests as in radix_sort" % last_depth)

    body = norm_ws(fn_body(src, r"fn hash_leaf\(leaf: &\[u8; 32\]\) -> \[u8; 32\] \{", "hash_leaf"))
    if body != "let mut hasher = Sha256::new(); hasher.update([NodeType::Term as u8]); hasher.update(leaf); hasher.finalize()":
        raise TieBroken("hash_leaf: unexpected shape: %r" % body[:200])
    out += "(* hash_leaf / single-leaf root = SHA256([NodeType::Term as u8] ++ leaf) *)\n"
    out += "Definition leaf_prefix : N := node_type_u8 NtTerm.\n\n"

    body = norm_ws(fn_body(src, r"impl From<ArrayTypes> for NodeType \{", "impl From<ArrayTypes> for NodeType"))
    want = ("fn from(val: ArrayTypes) -> NodeType { match val { ArrayTypes::Empty => NodeType::Empty, "
            "ArrayTypes::Leaf => NodeType::Term, ArrayTypes::Middle(_, _) | ArrayTypes::Truncated => NodeType::Mid, } }")
    if body != want:
        raise TieBroken("impl From<ArrayTypes> for NodeType changed: %r" % body[:200])
    return {"Mset.v": out}
