#!/usr/bin/env python3
"""rs2v — regenerate /verif/coq/Gen/*.v from /repo's current working tree.

Each generator module reads Rust source text, extracts tables / thresholds / field lists
with strict patterns and fails closed: a source shape it does not recognise raises
TieBroken, which the driver treats like a broken proof obligation.

Usage: rs2v.py [--repo /repo] [--out /verif/coq/Gen] [--only name,...]
Writes a file only if its content changed (so `make` stays a no-op on an unchanged tree).
Prints one JSON line: {"written": [...], "unchanged": [...], "broken": {name: msg}}.
"""
import sys, os, json, re, importlib, traceback

HERE = os.path.dirname(os.path.abspath(__file__))
sys.path.insert(0, HERE)
from tcommon import TieBroken  # noqa: E402


def _modules():
    """every translator/gen_<name>.py is a generator module"""
    return sorted(f[4:-3] for f in os.listdir(HERE) if f.startswith("gen_") and f.endswith(".py"))


MODULES = _modules()


def run(repo="/repo", out="/verif/coq/Gen", only=None):
    os.makedirs(out, exist_ok=True)
    res = {"written": [], "unchanged": [], "broken": {}}
    for name in MODULES:
        if only and name not in only:
            continue
        try:
            mod = importlib.import_module("gen_" + name)
        except ModuleNotFoundError:
            continue
        try:
            files = mod.generate(repo)
        except TieBroken as e:
            res["broken"][name] = str(e)
            continue
        except Exception as e:  # unknown failure = broken tie, fail closed
            res["broken"][name] = "translator crashed: %r\n%s" % (e, traceback.format_exc())
            continue
        for fn, content in files.items():
            path = os.path.join(out, fn)
            old = None
            if os.path.exists(path):
                with open(path) as f:
                    old = f.read()
            if old != content:
                with open(path, "w") as f:
                    f.write(content)
                res["written"].append(fn)
            else:
                res["unchanged"].append(fn)
    return res


if __name__ == "__main__":
    import argparse
    ap = argparse.ArgumentParser()
    ap.add_argument("--repo", default="/repo")
    ap.add_argument("--out", default="/verif/coq/Gen")
    ap.add_argument("--only", default=None)
    a = ap.parse_args()
    r = run(a.repo, a.out, a.only.split(",") if a.only else None)
    print(json.dumps(r))
    sys.exit(1 if r["broken"] else 0)
