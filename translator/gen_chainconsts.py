"""Gen/ChainConsts.v — constants used by the block-generator mirrors (properties C07, C09).

  chia-consensus/src/consensus_constants.rs   TEST_CONSTANTS.cost_per_byte, .max_block_cost_clvm
  chia-consensus/src/run_block_generator.rs   MAX_CONDITIONS_PER_SPEND; the `0, // clvm_cost` argument of the
                                              legacy path; position of its SIMPLE_GENERATOR reference check; bodies, presence and position of check_generator_quote / check_generator_node on both paths and in the coin-spend helpers; which ROM/deserializer constants are used
  chia-consensus/src/generator_cost.rs        the interned_vbytes weight expression
  chia-protocol/src/spend_bundle.rs           budget and CREATE_COIN cost of SpendBundle::additions
  chia-puzzles (version pinned by /repo/Cargo.lock, offline registry)
                                              ROM_BOOTSTRAP_GENERATOR, CHIALISP_DESERIALISATION byte strings

Shape checks are strict: anything not matching the expected text raises TieBroken."""
import re, os, glob
from tcommon import *


def _coq_bytes(b):
    rows = []
    for i in range(0, len(b), 24):
        rows.append("; ".join("x%02x" % c for c in b[i:i + 24]))
    return "[" + ";\n   ".join(rows) + "]"


def _puzzles_src(repo):
    lock = read(repo, "Cargo.lock")
    m = re.search(r'name = "chia-puzzles"\nversion = "([0-9.]+)"', lock)
    if not m:
        raise TieBroken("Cargo.lock: chia-puzzles version not found")
    ver = m.group(1)
    cands = glob.glob(os.path.expanduser("~/.cargo/registry/src/*/chia-puzzles-%s/src/programs.rs" % ver))
    if len(cands) != 1:
        raise TieBroken("chia-puzzles-%s source not found in the offline registry" % ver)
    return ver, open(cands[0]).read()


def _hex_const(src, name):
    m = re.search(r"pub const %s: \[u8; (\d+)\] = hex!\(\s*\"([0-9a-f]+)\"\s*\);" % name, src)
    if not m:
        raise TieBroken("chia-puzzles: constant %s not found" % name)
    b = bytes.fromhex(m.group(2))
    if len(b) != int(m.group(1)):
        raise TieBroken("chia-puzzles: %s length mismatch" % name)
    return b


def generate(repo):
    out = HEADER % "consensus_constants.rs, run_block_generator.rs, generator_cost.rs, spend_bundle.rs, chia-puzzles programs.rs"
    out += "From ChiaV.Base Require Import Bytes.\nOpen Scope N_scope.\n\n"

    src = strip_comments(read(repo, "crates/chia-consensus/src/consensus_constants.rs"))
    body = fn_body(src, r"pub const TEST_CONSTANTS: ConsensusConstants = ConsensusConstants \{", "TEST_CONSTANTS")
    for field, name in (("cost_per_byte", "COST_PER_BYTE"), ("max_block_cost_clvm", "MAX_BLOCK_COST_CLVM")):
        m = re.search(r"\b%s: ([0-9_]+)," % field, body)
        if not m:
            raise TieBroken("TEST_CONSTANTS.%s not found" % field)
        out += "Definition %s : N := %d.\n" % (name, rust_int(m.group(1)))

    raw = read(repo, "crates/chia-consensus/src/run_block_generator.rs")
    src = strip_comments(raw)
    m = re.search(r"const MAX_CONDITIONS_PER_SPEND: usize = ([0-9_]+);", src)
    if not m:
        raise TieBroken("MAX_CONDITIONS_PER_SPEND not found")
    out += "Definition MAX_CONDITIONS_PER_SPEND : N := %d.\n" % rust_int(m.group(1))
    if not re.search(r"use chia_puzzles::\{CHIALISP_DESERIALISATION, ROM_BOOTSTRAP_GENERATOR\};", src):
        raise TieBroken("run_block_generator.rs no longer imports the ROM and deserializer from chia_puzzles")
    legacy = norm_ws(fn_body(src, r"pub fn run_block_generator<", "run_block_generator"))
    if "parse_spends::<EmptyVisitor>( &a, generator_output, cost_left, 0, flags," not in legacy:
        raise TieBroken("run_block_generator: the parse_spends call (clvm_cost argument 0) changed shape")
    out += "Definition LEGACY_CLVM_COST_PER_SPEND : N := 0.\n"
    # position of the SIMPLE_GENERATOR block-reference check of the legacy path (mirrored by check_simple_refs):
    # after check_generator_node, before the references are consed and the ROM runs
    i1 = legacy.find("check_generator_node(&a, program, flags)?;")
    i2 = legacy.find("flags.contains(ConsensusFlags::SIMPLE_GENERATOR) && block_refs.peek().is_some()")
    i3 = legacy.find("ErrorCode::TooManyGeneratorRefs")
    i4 = legacy.find("a.new_atom(g.as_ref())?;")
    i5 = legacy.find("run_program(&mut a, &dialect, rom_generator, args, cost_left)?;")
    if not (0 <= i1 < i2 < i3 < i4 < i5):
        raise TieBroken("run_block_generator: the SIMPLE_GENERATOR block-reference check is missing or moved "
                        "(expected after check_generator_node and before the ROM arguments are built)")

    # the byte-level check_generator_quote and the node-level check_generator_node: bodies, and presence + position on
    # every path that Chain/Generator.v and Chain/Trusted.v mirror (check_generator_quote first, before any cost is
    # charged or any byte is parsed; check_generator_node after deserialisation and, on the two full-validation paths,
    # after the storage cost is charged)
    q = norm_ws(fn_body(src, r"pub fn check_generator_quote\(program: &\[u8\], flags: ConsensusFlags\) -> Result<\(\), ValidationErr> \{",
                        "check_generator_quote"))
    if q != ("if !flags.contains(ConsensusFlags::SIMPLE_GENERATOR) || program.starts_with(&[0xff, 0x01]) { Ok(()) } else { "
             "Err(ValidationErr::Err(ErrorCode::ComplexGeneratorReceived)) }"):
        raise TieBroken("check_generator_quote: body changed: %r" % q[:200])
    nd = norm_ws(fn_body(src, r"pub fn check_generator_node\(", "check_generator_node"))
    if nd != ("if !flags.contains(ConsensusFlags::SIMPLE_GENERATOR) { return Ok(()); } "
              "match <(MatchByte<1>, NodePtr)>::from_clvm(a, program) { "
              "Err(..) => Err(ValidationErr::Err(ErrorCode::ComplexGeneratorReceived)), _ => Ok(()), }"):
        raise TieBroken("check_generator_node: body changed: %r" % nd[:300])

    def ordered(body, what, marks):
        pos = -1
        for mk in marks:
            if body.count(mk) < 1:
                raise TieBroken("%s: `%s` is missing" % (what, mk))
            i = body.find(mk)
            if i <= pos:
                raise TieBroken("%s: `%s` moved (expected order: %s)" % (what, mk, " ; ".join(marks)))
            pos = i
    if legacy.lstrip("{ ").find("check_generator_quote(program, flags)?;") != 0:
        raise TieBroken("run_block_generator: check_generator_quote(program, flags)? is not the first statement")
    ordered(legacy, "run_block_generator",
            ["check_generator_quote(program, flags)?;", "subtract_cost(&mut cost_left, byte_cost)?;",
             "node_from_bytes_backrefs(&mut a, program)?;", "check_generator_node(&a, program, flags)?;",
             "flags.contains(ConsensusFlags::SIMPLE_GENERATOR) && block_refs.peek().is_some()", "run_program("])
    native = norm_ws(fn_body(src, r"pub fn run_block_generator2<", "run_block_generator2"))
    if native.lstrip("{ ").find("check_generator_quote(program, flags)?;") != 0:
        raise TieBroken("run_block_generator2: check_generator_quote(program, flags)? is not the first statement")
    ordered(native, "run_block_generator2",
            ["check_generator_quote(program, flags)?;", "node_from_bytes_backrefs(", "subtract_cost(&mut cost_left, base_cost)?;",
             "check_generator_node(&a, program, flags)?;", "setup_generator_args(&mut a, block_refs, flags)?;", "run_program("])
    for fn in ("get_coinspends_for_trusted_block", "get_coinspends_with_conditions_for_trusted_block"):
        hb = norm_ws(fn_body(src, r"pub fn %s<" % fn, fn))
        ordered(hb, fn, ["check_generator_quote(generator.as_ref(), flags)?;", "node_from_bytes_backrefs(&mut a, generator)?;",
                         "check_generator_node(&a, program, flags)?;", "setup_generator_args(&mut a, refs, flags)?;", "run_program("])

    src = strip_comments(read(repo, "crates/chia-consensus/src/generator_cost.rs"))
    body = norm_ws(fn_body(src, r"pub fn interned_vbytes\(tree: &InternedTree\) -> u64 \{", "interned_vbytes"))
    m = re.search(r"atom_bytes \+ (\d+) \* atom_count \+ (\d+) \* pair_count$", body)
    if not m:
        raise TieBroken("interned_vbytes: weight expression changed: %r" % body[-120:])
    out += "Definition INTERN_ATOM_WEIGHT : N := %s.\nDefinition INTERN_PAIR_WEIGHT : N := %s.\n" % (m.group(1), m.group(2))

    src = strip_comments(read(repo, "crates/chia-protocol/src/spend_bundle.rs"))
    body = fn_body(src, r"pub fn additions\(&self\) -> Result<Vec<Coin>, EvalErr> \{", "SpendBundle::additions")
    m1 = re.search(r"const CREATE_COIN_COST: Cost = ([0-9_]+);", body)
    m2 = re.search(r"let mut cost_left = ([0-9_]+);", body)
    m3 = re.search(r"const CREATE_COIN: u8 = ([0-9]+);", body)
    if not (m1 and m2 and m3):
        raise TieBroken("SpendBundle::additions: constants not found")
    out += "Definition SB_CREATE_COIN_COST : N := %d.\nDefinition SB_BUDGET : N := %d.\nDefinition SB_CREATE_COIN : N := %d.\n" % (
        rust_int(m1.group(1)), rust_int(m2.group(1)), rust_int(m3.group(1)))

    ver, psrc = _puzzles_src(repo)
    rom = _hex_const(psrc, "ROM_BOOTSTRAP_GENERATOR")
    des = _hex_const(psrc, "CHIALISP_DESERIALISATION")
    out += "\n(* chia-puzzles %s *)\n" % ver
    out += "Definition ROM_BOOTSTRAP_GENERATOR : bytes :=\n  %s.\n\n" % _coq_bytes(rom)
    out += "Definition CHIALISP_DESERIALISATION : bytes :=\n  %s.\n" % _coq_bytes(des)
    return {"ChainConsts.v": out}
