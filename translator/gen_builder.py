"""Gen/Builder.v — constants of the two block builders and of generator_cost.rs (properties C08, C10).

  chia-consensus/src/build_compressed_block.rs   MAX_SKIPPED_ITEMS, MIN_COST_THRESHOLD, initial block_cost, the
                                                 `+ 2` closing bytes of byte_cost
  chia-consensus/src/build_interned_block.rs     MAX_SKIPPED_ITEMS, MIN_COST_THRESHOLD, WRAPPER_VBYTES, COST_CONS,
                                                 initial block_cost
  chia-consensus/src/generator_cost.rs           the weights of `atom_bytes + 2 * atom_count + 3 * pair_count`
  chia-consensus/src/spendbundle_conditions.rs   QUOTE_BYTES

Shape checks are strict: anything not matching the expected text raises TieBroken."""
import re
from tcommon import *


def _const(src, name, ty, what):
    m = re.search(r"\bconst %s: %s = ([0-9A-Za-z_]+);" % (name, ty), src)
    if not m:
        raise TieBroken("%s: const %s: %s not found" % (what, name, ty))
    return rust_int(m.group(1))


def _initial_block_cost(src, what):
    vals = re.findall(r"\bblock_cost: ([0-9_]+),", src)
    if len(vals) != 1:
        raise TieBroken("%s: expected exactly one `block_cost: <literal>,` initialiser, found %r" % (what, vals))
    return rust_int(vals[0])


def generate(repo):
    out = HEADER % "build_compressed_block.rs, build_interned_block.rs, generator_cost.rs, spendbundle_conditions.rs"
    out += "From ChiaV.Base Require Import Bytes.\nOpen Scope N_scope.\n\n"

    c = strip_comments(read(repo, "crates/chia-consensus/src/build_compressed_block.rs"))
    i = strip_comments(read(repo, "crates/chia-consensus/src/build_interned_block.rs"))
    out += "(* build_compressed_block.rs *)\n"
    out += "Definition C_MAX_SKIPPED_ITEMS : N := %d.\n" % _const(c, "MAX_SKIPPED_ITEMS", "u32", "compressed builder")
    out += "Definition C_MIN_COST_THRESHOLD : N := %d.\n" % _const(c, "MIN_COST_THRESHOLD", "u64", "compressed builder")
    out += "Definition C_INITIAL_BLOCK_COST : N := %d.\n" % _initial_block_cost(c, "compressed builder")
    closing = set(re.findall(r"self\.byte_cost = \(self\.ser\.size\(\) \+ ([0-9]+)\) \* constants\.cost_per_byte;", c))
    if len(closing) != 1 or len(re.findall(r"self\.byte_cost = ", c)) != 2:
        raise TieBroken("compressed builder: the two `self.byte_cost = (self.ser.size() + N) * constants.cost_per_byte` assignments changed")
    out += "Definition C_CLOSING_BYTES : N := %d.\n" % rust_int(closing.pop())
    if not re.search(r"fn result\(num_skipped: u32\) -> BuildBlockResult \{\s*if num_skipped > MAX_SKIPPED_ITEMS \{\s*BuildBlockResult::Done", c):
        raise TieBroken("compressed builder: fn result changed shape")

    # the guard of the fix "block builders reject a declared cost above the block limit before summing": the mirror
    # (Bundle/Builder.v, c_step = c_step_gen true) and the no-overflow theorems rest on it
    if "if cost > constants.max_block_cost_clvm || self.byte_cost + self.block_cost + cost > constants.max_block_cost_clvm {" not in norm_ws(c):
        raise TieBroken("compressed builder: the declared-cost guard `cost > max || byte + block + cost > max` of the second test is missing or changed")
    if len(re.findall(r"self\.byte_cost \+ self\.block_cost \+ cost > constants\.max_block_cost_clvm", c)) != 2:
        raise TieBroken("compressed builder: expected exactly two `byte_cost + block_cost + cost > max` tests")
    out += "Definition C_DECLARED_COST_GUARD : bool := true.\n"

    out += "\n(* build_interned_block.rs *)\n"
    out += "Definition I_MAX_SKIPPED_ITEMS : N := %d.\n" % _const(i, "MAX_SKIPPED_ITEMS", "u32", "interned builder")
    out += "Definition I_MIN_COST_THRESHOLD : N := %d.\n" % _const(i, "MIN_COST_THRESHOLD", "u64", "interned builder")
    out += "Definition WRAPPER_VBYTES : N := %d.\n" % _const(i, "WRAPPER_VBYTES", "u64", "interned builder")
    out += "Definition COST_CONS : N := %d.\n" % _const(i, "COST_CONS", "u64", "interned builder")
    out += "Definition I_INITIAL_BLOCK_COST : N := %d.\n" % _initial_block_cost(i, "interned builder")
    if not re.search(r"fn result\(num_skipped: u32\) -> BuildBlockResult \{\s*if num_skipped > MAX_SKIPPED_ITEMS \{\s*BuildBlockResult::Done", i):
        raise TieBroken("interned builder: fn result changed shape")

    if "if cost > self.max_block_cost || self.byte_cost + wrapper_cost + self.block_cost + cost > self.max_block_cost {" not in norm_ws(i):
        raise TieBroken("interned builder: the declared-cost guard `cost > max || byte + wrapper + block + cost > max` of the second test is missing or changed")
    out += "Definition I_DECLARED_COST_GUARD : bool := true.\n"

    g = strip_comments(read(repo, "crates/chia-consensus/src/generator_cost.rs"))
    body = norm_ws(fn_body(g, r"pub fn interned_vbytes\(tree: &InternedTree\) -> u64 \{", "interned_vbytes"))
    m = re.search(r"atom_bytes \+ ([0-9]+) \* atom_count \+ ([0-9]+) \* pair_count$", body)
    if not m:
        raise TieBroken("interned_vbytes: result expression changed: %r" % body[-120:])
    if "atom_bytes += tree.allocator.atom_len(atom) as u64;" not in body:
        raise TieBroken("interned_vbytes: atom byte accumulation changed")
    out += "\n(* generator_cost.rs: atom_bytes + VB_ATOM * atom_count + VB_PAIR * pair_count *)\n"
    out += "Definition VB_ATOM : N := %d.\n" % rust_int(m.group(1))
    out += "Definition VB_PAIR : N := %d.\n" % rust_int(m.group(2))

    s = strip_comments(read(repo, "crates/chia-consensus/src/spendbundle_conditions.rs"))
    out += "\n(* spendbundle_conditions.rs *)\n"
    out += "Definition QUOTE_BYTES : N := %d.\n" % _const(s, "QUOTE_BYTES", "usize", "spendbundle_conditions")
    if "calculate_generator_length(&spend_bundle.coin_spends) - QUOTE_BYTES" not in norm_ws(s):
        raise TieBroken("calculate_base_cost: `calculate_generator_length(..) - QUOTE_BYTES` changed")
    return {"Builder.v": out}
