"""Gen/Dl.v — DataLayer merkle blob layout constants and field lists.

  chia-datalayer/src/merkle/format.rs   METADATA_SIZE, DATA_SIZE, BLOCK_SIZE, TreeIndexType, newtypes
                                        (TreeIndex, Parent, Hash, KeyId, ValueId), NodeType tags,
                                        field order/types of NodeMetadata, InternalNode, LeafNode
  chia-datalayer/src/merkle/blob.rs     Side tags, the shape of internal_hash / calculate_internal_hash,
                                        block_range
Fail closed: every extracted item is matched with a strict pattern; any other shape is a broken tie."""
import re
from tcommon import *

WIDTH = {"u8": 1, "u16": 2, "u32": 4, "u64": 8, "i64": 8, "i32": 4, "Bytes32": 32}


def _const(src, name):
    m = re.search(r"pub const %s: usize = ([^;]+);" % name, src)
    if not m:
        raise TieBroken("format.rs: const %s not found" % name)
    return m.group(1).strip()


def _newtype(src, name):
    """pub struct Name(pub T);  (the cfg(not(py-bindings)) variant; both variants must agree on T)"""
    ts = set(re.findall(r"pub struct %s\((?:#\[[^\]]*\]\s*)?pub ([A-Za-z0-9_<>]+)\);" % name, src))
    if len(ts) != 1:
        raise TieBroken("format.rs: newtype %s not found or ambiguous: %r" % (name, ts))
    return ts.pop()


def _struct_fields(src, name):
    m = re.search(r"pub struct %s \{(.*?)\n\}" % name, src, flags=re.S)
    if not m:
        raise TieBroken("struct %s not found" % name)
    fields = []
    for line in m.group(1).split("\n"):
        line = line.strip()
        if not line:
            continue
        f = re.match(r"^pub ([a-z_]+): ([A-Za-z0-9_<>]+),$", line)
        if not f:
            raise TieBroken("struct %s: unexpected field line %r" % (name, line))
        fields.append((f.group(1), f.group(2)))
    return fields


def _u8_enum(src, name, expect_derive=True):
    m = re.search(r"#\[repr\(u8\)\]\s*#\[derive\(([^)]*)\)\]\s*pub enum %s \{(.*?)\n\}" % name, src, flags=re.S)
    if not m:
        raise TieBroken("repr(u8) enum %s not found" % name)
    if "Streamable" not in m.group(1):
        raise TieBroken("enum %s no longer derives Streamable" % name)
    out = []
    for line in m.group(2).split("\n"):
        line = line.strip()
        if not line:
            continue
        f = re.match(r"^([A-Za-z]+) = ([0-9]+),$", line)
        if not f:
            raise TieBroken("enum %s: unexpected variant line %r" % (name, line))
        out.append((f.group(1), int(f.group(2))))
    return out


def generate(repo):
    fsrc = strip_comments(read(repo, "crates/chia-datalayer/src/merkle/format.rs"))
    bsrc = strip_comments(read(repo, "crates/chia-datalayer/src/merkle/blob.rs"))

    meta = _const(fsrc, "METADATA_SIZE")
    data = _const(fsrc, "DATA_SIZE")
    blk = _const(fsrc, "BLOCK_SIZE")
    if not re.match(r"^[0-9_]+$", meta) or not re.match(r"^[0-9_]+$", data):
        raise TieBroken("METADATA_SIZE/DATA_SIZE are no longer literals: %r %r" % (meta, data))
    if norm_ws(blk) != "METADATA_SIZE + DATA_SIZE":
        raise TieBroken("BLOCK_SIZE is no longer METADATA_SIZE + DATA_SIZE: %r" % blk)
    if "const METADATA_RANGE: Range<usize> = 0..METADATA_SIZE;" not in fsrc:
        raise TieBroken("METADATA_RANGE changed")
    if "const DATA_RANGE: Range<usize> = METADATA_SIZE..METADATA_SIZE + DATA_SIZE;" not in fsrc:
        raise TieBroken("DATA_RANGE changed")

    m = re.search(r"pub type TreeIndexType = ([a-z0-9]+);", fsrc)
    if not m or m.group(1) not in WIDTH:
        raise TieBroken("TreeIndexType not found / unknown width")
    tit = m.group(1)
    newt = {"TreeIndex": _newtype(fsrc, "TreeIndex"), "Parent": _newtype(fsrc, "Parent"),
            "Hash": _newtype(fsrc, "Hash"), "KeyId": _newtype(fsrc, "KeyId"), "ValueId": _newtype(fsrc, "ValueId")}
    if newt["TreeIndex"] != "TreeIndexType":
        raise TieBroken("TreeIndex is no longer a TreeIndexType newtype")
    if newt["Parent"] != "Option<TreeIndex>":
        raise TieBroken("Parent is no longer Option<TreeIndex>")
    for n in ("Hash", "KeyId", "ValueId"):
        if newt[n] not in WIDTH:
            raise TieBroken("%s wraps an unknown type %s" % (n, newt[n]))
    if newt["KeyId"] != "i64" or newt["ValueId"] != "i64":
        raise TieBroken("KeyId/ValueId are no longer i64 (the model prints them as 8 big-endian bytes)")
    # every serialized newtype / struct must derive Streamable (the byte layout is the derive's)
    for n in ("TreeIndex", "Parent", "Hash", "KeyId", "ValueId", "NodeMetadata", "InternalNode", "LeafNode"):
        mm = re.findall(r"#\[derive\(([^)]*)\)\]\s*(?:#\[cfg\([^\]]*\)\]\s*)?pub struct %s\b" % n, fsrc)
        if not mm or not all("Streamable" in d for d in mm):
            raise TieBroken("%s no longer derives Streamable" % n)

    ntype = _u8_enum(fsrc, "NodeType")
    if [v for v, _ in ntype] != ["Internal", "Leaf"]:
        raise TieBroken("NodeType variants changed: %r" % ntype)
    side = _u8_enum(bsrc, "Side")
    if [v for v, _ in side] != ["Left", "Right"]:
        raise TieBroken("Side variants changed: %r" % side)

    layouts = {}
    for sname in ("NodeMetadata", "InternalNode", "LeafNode"):
        layouts[sname] = _struct_fields(fsrc, sname)
    want_types = {"node_type": "NodeType", "dirty": "bool", "hash": "Hash", "parent": "Parent",
                  "left": "TreeIndex", "right": "TreeIndex", "key": "KeyId", "value": "ValueId"}
    allf = []
    for sname, fl in layouts.items():
        for fn, ft in fl:
            if fn not in want_types:
                raise TieBroken("%s: unknown field %s" % (sname, fn))
            if want_types[fn] != ft:
                raise TieBroken("%s.%s has type %s, expected %s" % (sname, fn, ft, want_types[fn]))
            if fn not in allf:
                allf.append(fn)

    # Node::to_bytes pads to DATA_SIZE with zeros, Block::to_bytes = metadata ++ data
    nb = norm_ws(fn_body(fsrc, r"pub fn to_bytes\(&self\) -> Result<DataBytes, Error> \{", "Node::to_bytes"))
    if "assert!(base.len() <= DATA_SIZE); base.resize(DATA_SIZE, 0);" not in nb:
        raise TieBroken("Node::to_bytes: padding shape changed")
    bb = norm_ws(fn_body(fsrc, r"pub fn to_bytes\(&self\) -> Result<BlockBytes, Error> \{", "Block::to_bytes"))
    if bb != ("let mut blob: BlockBytes = [0; BLOCK_SIZE]; blob[METADATA_RANGE].copy_from_slice(&self.metadata.to_bytes()"
              ".map_err(Error::Streaming)?); blob[DATA_RANGE].copy_from_slice(&self.node.to_bytes()?); Ok(blob)"):
        raise TieBroken("Block::to_bytes changed: %r" % bb[:200])
    if "T::parse::<false>(&mut cursor)" not in fsrc:
        raise TieBroken("streamable_from_bytes_ignore_extra_bytes changed")

    # internal_hash: H(0x02 ++ left ++ right)
    ih = norm_ws(fn_body(bsrc, r"pub fn internal_hash\(left_hash: &Hash, right_hash: &Hash\) -> Hash \{", "internal_hash"))
    mm = re.match(r'^let mut hasher = Sha256::new\(\); hasher\.update\(b"\\x([0-9a-fA-F]{2})"\); hasher\.update\(left_hash\.0\); '
                  r'hasher\.update\(right_hash\.0\); Hash\(Bytes32::new\(hasher\.finalize\(\)\)\)$', ih)
    if not mm:
        raise TieBroken("internal_hash changed: %r" % ih[:200])
    prefix = int(mm.group(1), 16)
    ch = norm_ws(fn_body(bsrc, r"pub fn calculate_internal_hash\(hash: &Hash, other_hash_side: Side, other_hash: &Hash\) -> Hash \{", "calculate_internal_hash"))
    if ch != "match other_hash_side { Side::Left => internal_hash(other_hash, hash), Side::Right => internal_hash(hash, other_hash), }":
        raise TieBroken("calculate_internal_hash changed: %r" % ch[:200])
    br = norm_ws(fn_body(bsrc, r"pub fn block_range\(index: TreeIndex\) -> Range<usize> \{", "block_range"))
    if br != "let block_start = index.0 as usize * BLOCK_SIZE; block_start..block_start + BLOCK_SIZE":
        raise TieBroken("block_range changed")

    out = HEADER % "chia-datalayer/src/merkle/format.rs, blob.rs"
    out += "From ChiaV.Base Require Import Bytes.\nOpen Scope N_scope.\n\n"
    out += "Definition METADATA_SIZE : N := %d.\n" % rust_int(meta)
    out += "Definition DATA_SIZE : N := %d.\n" % rust_int(data)
    out += "Definition BLOCK_SIZE : N := METADATA_SIZE + DATA_SIZE.\n\n"
    out += "(* widths in bytes: TreeIndexType = %s, Hash(%s), KeyId(%s), ValueId(%s) *)\n" % (tit, newt["Hash"], newt["KeyId"], newt["ValueId"])
    out += "Definition TREE_INDEX_BYTES : nat := %d.\n" % WIDTH[tit]
    out += "Definition HASH_BYTES : nat := %d.\n" % WIDTH[newt["Hash"]]
    out += "Definition KEY_BYTES : nat := %d.\n" % WIDTH[newt["KeyId"]]
    out += "Definition VALUE_BYTES : nat := %d.\n\n" % WIDTH[newt["ValueId"]]
    out += "Definition NODE_TYPE_INTERNAL : N := %d.\nDefinition NODE_TYPE_LEAF : N := %d.\n" % (ntype[0][1], ntype[1][1])
    out += "Definition SIDE_LEFT : N := %d.\nDefinition SIDE_RIGHT : N := %d.\n\n" % (side[0][1], side[1][1])
    out += "(* field lists in declaration order = streamable order *)\n"
    out += "Inductive fld := " + " | ".join("F_" + f for f in allf) + ".\n"
    for sname, dname in (("NodeMetadata", "metadata_layout"), ("InternalNode", "internal_layout"), ("LeafNode", "leaf_layout")):
        out += "Definition %s : list fld := [%s].\n" % (dname, "; ".join("F_" + fn for fn, _ in layouts[sname]))
    out += "\n(* internal_hash l r = SHA-256 (prefix ++ l ++ r) *)\n"
    out += "Definition INTERNAL_HASH_PREFIX : bytes := [n2b %d].\n" % prefix
    return {"Dl.v": out}
