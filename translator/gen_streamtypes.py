"""Gen/StreamTypes.v (+ harness/src/bin/wire_types_gen.rs) — every Streamable type of the repository.

Sources: every `#[streamable(...)]` / `derive(... Streamable ...)` struct and enum under
crates/{chia-protocol,chia-consensus,chia-datalayer,chia-bls}/src (test modules excluded):
field order and field types, enum discriminants, which types get the JSON-dict conversions
(`PyJsonDict`), `py_uppercase`, and the SET of hand-written `impl Streamable for`.

Hand-written impls (a new or a removed one is a broken tie):
  * leaves modelled in Stream/Universe.v: the integer/bool/String/()/Option/Vec/tuple/array impls of
    chia-traits, Bytes, BytesImpl<N>, Program, PublicKey, Signature, SecretKey, GTElement;
  * RewardChainBlock, SubEpochSummary, SubEpochData: their three method bodies are parsed statement
    by statement into a wire field sequence with one `Opt2` entry (utils.rs helper); the three bodies
    must agree with each other;
  * FullBlock, UnfinishedBlock: the common prefix of fields is parsed the same way, the version
    tail must equal the pinned shape mirrored by `GenTail` in Stream/Versioned.v;
  * ProofOfSpace: field list from the struct, impl body must equal the pinned shape mirrored by
    `PoS` in Stream/Versioned.v.
Anything else (unknown field type, generic struct, enum without literal discriminants, duplicate
type name, changed shape) raises TieBroken.

A wire descriptor is  Struct name [(json_key(s), ty)]: an entry whose type occupies several Rust
fields (Opt2: 2, GenTail: 4) carries the field names joined by ','."""
import os, re, hashlib
from tcommon import *

CRATES = ["chia-protocol", "chia-consensus", "chia-datalayer", "chia-bls"]
TRAITS_FILE = "crates/chia-traits/src/streamable.rs"

# hand-written impls expected in the scanned crates  (crate, impl target)
EXPECTED_HANDWRITTEN = {
    ("chia-bls", "SecretKey"), ("chia-bls", "GTElement"), ("chia-bls", "PublicKey"), ("chia-bls", "Signature"),
    ("chia-protocol", "Bytes"), ("chia-protocol", "BytesImpl<N>"), ("chia-protocol", "Program"),
    ("chia-protocol", "ProofOfSpace"), ("chia-protocol", "SubEpochSummary"), ("chia-protocol", "SubEpochData"),
    ("chia-protocol", "RewardChainBlock"), ("chia-protocol", "FullBlock"), ("chia-protocol", "UnfinishedBlock"),
}
# hand-written ToJsonDict / FromJsonDict impls (both directions) mirrored by Stream/Json.v
EXPECTED_JSON_IMPLS = {("chia-bls", "SecretKey"), ("chia-bls", "GTElement"), ("chia-bls", "PublicKey"), ("chia-bls", "Signature"),
                       ("chia-protocol", "Bytes"), ("chia-protocol", "BytesImpl<N>"), ("chia-protocol", "Program")}
EXPECTED_TRAITS = {"$t", "Vec<T>", "String", "bool", "()", "Option<T>", "(T, U)", "(T, U, V)", "(T, U, V, W)", "[T; N]"}
EXPECTED_PRIMS = ["u8", "i8", "u16", "i16", "u32", "i32", "u64", "i64", "u128", "i128"]
OPT2_TYPES = ["RewardChainBlock", "SubEpochSummary", "SubEpochData"]
TAIL_TYPES = ["FullBlock", "UnfinishedBlock"]
TAIL_FIELDS = ["transactions_generator", "transactions_generator_ref_list", "transactions_generator_buffer", "version"]
STREAMABLE_ARGS = {"", "message", "subclass", "no_serde", "no_json", "no_streamable"}

INT_BYTES = {"8": 1, "16": 2, "32": 4, "64": 8, "128": 16}
LEAF_NAMES = {
    "bool": ("Bool",), "String": ("Str",), "Bytes": ("Bytes",), "Program": ("Prog",),
    "Bytes32": ("BytesN", 32), "Bytes48": ("BytesN", 48), "Bytes96": ("BytesN", 96), "Bytes100": ("BytesN", 100),
    "G1Element": ("G1",), "PublicKey": ("G1",), "G2Element": ("G2",), "Signature": ("G2",),
    "SecretKey": ("Sk",), "GTElement": ("BytesN", 576),
}
# hand-written leaf impls that are Streamable types of their own (name as exported to Python)
LEAF_TOP = [("G1Element", ("G1",), "chia_bls::PublicKey", True), ("G2Element", ("G2",), "chia_bls::Signature", True),
            ("PrivateKey", ("Sk",), "chia_bls::SecretKey", True), ("GTElement", ("BytesN", 576), "chia_bls::GTElement", False),
            ("Bytes32", ("BytesN", 32), "chia_protocol::BytesImpl<32>", True), ("Bytes", ("Bytes",), "chia_protocol::Bytes", True),
            ("Program", ("Prog",), "chia_protocol::Program", True)]
RUST_LEAF = {"Bool": "bool", "Str": "String", "Bytes": "chia_protocol::Bytes", "Prog": "chia_protocol::Program",
             "G1": "chia_bls::PublicKey", "G2": "chia_bls::Signature", "Sk": "chia_bls::SecretKey"}


# ------------------------------------------------------------------ lexical helpers
def blank_literals(src):
    """remove comments; blank the contents of string / char literals (so braces inside them cannot
    confuse the bracket matching).  Lifetimes ('a) are left alone."""
    out = []
    i, n = 0, len(src)
    while i < n:
        c = src[i]
        if src.startswith("//", i):
            j = src.find("\n", i)
            i = n if j < 0 else j
        elif src.startswith("/*", i):
            depth, i = 1, i + 2
            while i < n and depth:
                if src.startswith("/*", i):
                    depth, i = depth + 1, i + 2
                elif src.startswith("*/", i):
                    depth, i = depth - 1, i + 2
                else:
                    i += 1
            out.append(" ")
        elif c == '"' or (c == "r" and re.match(r'r#*"', src[i:]) and (i == 0 or not (src[i - 1].isalnum() or src[i - 1] == "_"))):
            if c == "r":
                m = re.match(r'r(#*)"', src[i:])
                close = '"' + m.group(1)
                j = src.find(close, i + len(m.group(0)))
                if j < 0:
                    raise TieBroken("unterminated raw string")
                out.append('""')
                i = j + len(close)
            else:
                j = i + 1
                while j < n and src[j] != '"':
                    j += 2 if src[j] == "\\" else 1
                out.append('""')
                i = j + 1
        elif c == "'":
            m = re.match(r"'(\\.[^']*|[^'\\])'", src[i:])
            if m:
                out.append("' '")
                i += len(m.group(0))
            else:
                out.append(c)
                i += 1
        else:
            out.append(c)
            i += 1
    return "".join(out)


def match_close(s, i):
    """s[i] is an opening bracket; return the index of its partner"""
    pairs = {"(": ")", "[": "]", "{": "}", "<": ">"}
    op = s[i]
    cl = pairs[op]
    depth = 0
    j = i
    while j < len(s):
        ch = s[j]
        if ch == op:
            depth += 1
        elif ch == cl:
            if not (op == "<" and j > 0 and s[j - 1] == "-"):   # `->`
                depth -= 1
                if depth == 0:
                    return j
        j += 1
    raise TieBroken("unbalanced %r" % op)


def split_top(s, sep=","):
    parts, depth, cur = [], 0, []
    for k, ch in enumerate(s):
        if ch in "([{<":
            depth += 1
        elif ch in ")]}":
            depth -= 1
        elif ch == ">" and not (k > 0 and s[k - 1] in "-="):
            depth -= 1
        if ch == sep and depth == 0:
            parts.append("".join(cur))
            cur = []
        else:
            cur.append(ch)
    if "".join(cur).strip():
        parts.append("".join(cur))
    return parts


def drop_test_modules(s):
    """remove `#[cfg(test)] ... mod name { ... }` blocks"""
    while True:
        m = re.search(r"#\[cfg\(test\)\]\s*(?:#\[[^\]]*\]\s*)*(?:pub\s+)?mod\s+\w+\s*\{", s)
        if not m:
            return s
        j = match_close(s, m.end() - 1)
        s = s[:m.start()] + s[j + 1:]


def read_attrs(s, i):
    """parse a run of outer attributes starting at s[i] == '#'; returns (list of attr bodies, index after)"""
    attrs = []
    while True:
        m = re.match(r"\s*#\[", s[i:])
        if not m:
            return attrs, i
        st = i + m.end() - 1
        j = match_close(s, st)
        attrs.append(norm_ws(s[st + 1:j]))
        i = j + 1


def strip_field_attrs(f):
    f = f.strip()
    while f.startswith("#["):
        j = match_close(f, 1)
        f = f[j + 1:].strip()
    return re.sub(r"^pub(\s*\([^)]*\))?\s+", "", f).strip()


# ------------------------------------------------------------------ type expressions
def parse_type(t, what):
    t = re.sub(r"\s+", "", t)
    m = re.match(r"^(?:crate::|chia_protocol::|chia_bls::|chia_traits::|super::|self::)+(.*)$", t)
    if m:
        t = m.group(1)
    m = re.match(r"^[ui](8|16|32|64|128)$", t)
    if m:
        return ("U" if t[0] == "u" else "I", INT_BYTES[m.group(1)])
    if t in LEAF_NAMES:
        return LEAF_NAMES[t]
    m = re.match(r"^BytesImpl<(\d+)>$", t)
    if m:
        return ("BytesN", int(m.group(1)))
    m = re.match(r"^(Option|Vec)<(.*)>$", t)
    if m and match_close(t, len(m.group(1))) == len(t) - 1:
        return ("Opt" if m.group(1) == "Option" else "Vec", parse_type(m.group(2), what))
    if t.startswith("(") and t.endswith(")") and match_close(t, 0) == len(t) - 1:
        parts = [p for p in split_top(t[1:-1]) if p.strip()]
        if len(parts) not in (0, 2, 3, 4):
            raise TieBroken("%s: tuple of %d elements has no Streamable impl" % (what, len(parts)))
        return ("Tup", [parse_type(p, what) for p in parts])
    m = re.match(r"^\[(.*);(\d+)\]$", t)
    if m:
        return ("Arr", int(m.group(2)), parse_type(m.group(1), what))
    if re.match(r"^[A-Za-z_][A-Za-z0-9_]*$", t):
        return ("Ref", t)
    raise TieBroken("%s: unrecognised field type %r" % (what, t))


def type_refs(d):
    k = d[0]
    if k == "Ref":
        return [d[1]]
    if k in ("Opt", "Vec"):
        return type_refs(d[1])
    if k == "Arr":
        return type_refs(d[2])
    if k == "Tup":
        return [r for x in d[1] for r in type_refs(x)]
    if k == "Opt2":
        return type_refs(d[1]) + type_refs(d[2])
    return []


def coq_ty(d):
    k = d[0]
    if k in ("U", "I", "BytesN"):
        return "(%s %d)" % (k, d[1])
    if k in ("Bool", "Str", "Bytes", "Prog", "G1", "G2", "Sk", "PoS"):
        return k
    if k == "GenTail":
        return "(GenTail %s)" % ("true" if d[1] else "false")
    if k in ("Opt", "Vec"):
        return "(%s %s)" % (k, coq_ty(d[1]))
    if k == "Arr":
        return "(Arr %d %s)" % (d[1], coq_ty(d[2]))
    if k == "Tup":
        return "(Tup [%s])" % "; ".join(coq_ty(x) for x in d[1])
    if k == "Opt2":
        return "(Opt2 %s %s)" % (coq_ty(d[1]), coq_ty(d[2]))
    if k == "Ref":
        return "T_" + d[1]
    raise TieBroken("internal: cannot render %r" % (d,))


def rust_ty(d, paths):
    k = d[0]
    if k in ("U", "I"):
        return "%s%d" % (k.lower(), d[1] * 8)
    if k == "BytesN":
        return "chia_bls::GTElement" if d[1] == 576 and False else "chia_protocol::BytesImpl<%d>" % d[1]
    if k in RUST_LEAF:
        return RUST_LEAF[k]
    if k == "Opt":
        return "Option<%s>" % rust_ty(d[1], paths)
    if k == "Vec":
        return "Vec<%s>" % rust_ty(d[1], paths)
    if k == "Arr":
        return "[%s; %d]" % (rust_ty(d[2], paths), d[1])
    if k == "Tup":
        return "(%s)" % "".join(rust_ty(x, paths) + ", " for x in d[1]) if d[1] else "()"
    if k == "Ref":
        return paths[d[1]]
    raise TieBroken("internal: no rust type for %r" % (d,))


# ------------------------------------------------------------------ scanning
def scan_crate(repo, crate):
    root = os.path.join(repo, "crates", crate, "src")
    if not os.path.isdir(root):
        raise TieBroken("crate source missing: " + crate)
    files = []
    for dp, dn, fn in os.walk(root):
        dn.sort()
        for f in sorted(fn):
            if f.endswith(".rs"):
                files.append(os.path.join(dp, f))
    return files


def module_path(crate, path, repo):
    rel = os.path.relpath(path, os.path.join(repo, "crates", crate, "src"))
    parts = rel[:-3].split(os.sep)
    if parts[-1] in ("mod", "lib"):
        parts = parts[:-1]
    cr = crate.replace("-", "_")
    if crate in ("chia-protocol", "chia-bls", "chia-datalayer"):
        return cr               # everything is re-exported at the crate root
    return "::".join([cr] + parts)


def parse_items(repo):
    """returns (types: name -> record, aliases: name -> type text, handwritten: set of (crate, target))"""
    types, aliases, hand = {}, {}, set()
    jimpl = {"ToJsonDict": set(), "FromJsonDict": set()}
    for crate in CRATES:
        for path in scan_crate(repo, crate):
            rel = os.path.relpath(path, repo)
            s = drop_test_modules(blank_literals(open(path).read()))
            for m in re.finditer(r"\bimpl\s*(<[^>{]*>)?\s*(?:chia_traits::)?Streamable\s+for\s+([^{]+?)\s*\{", s):
                hand.add((crate, norm_ws(m.group(2))))
            for m in re.finditer(r"\bimpl\s*(<[^>{]*>)?\s*(?:chia_traits::)?(ToJsonDict|FromJsonDict)\s+for\s+([^{]+?)\s*\{", s):
                jimpl[m.group(2)].add((crate, norm_ws(m.group(3))))
            for m in re.finditer(r"(?m)^\s*pub(?:\([^)]*\))?\s+type\s+(\w+)\s*=\s*([^;]+);", s):
                aliases[m.group(1)] = norm_ws(m.group(2))
            i = 0
            while True:
                k = s.find("#[", i)
                if k < 0:
                    break
                if k > 0 and s[k - 1] == "!":
                    i = k + 2
                    continue
                attrs, j = read_attrs(s, k)
                im = re.match(r"\s*(?:pub(?:\([^)]*\))?\s+)?(struct|enum)\s+(\w+)\s*", s[j:])
                if not im:
                    i = max(j, k + 2)
                    continue
                kind, name = im.group(1), im.group(2)
                p = j + im.end()
                rec = classify(attrs, kind, name, crate, rel)
                # body
                if s[p] == "<":
                    if rec:
                        raise TieBroken("%s: generic streamable type %s is not supported" % (rel, name))
                    i = p
                    continue
                if s[p] == "{":
                    e = match_close(s, p)
                    body, shape = s[p + 1:e], "named"
                elif s[p] == "(":
                    e = match_close(s, p)
                    body, shape = s[p + 1:e], "tuple"
                elif s[p] == ";":
                    e, body, shape = p, "", "unit"
                else:
                    if rec:
                        raise TieBroken("%s: cannot parse the body of %s" % (rel, name))
                    i = p
                    continue
                i = e + 1
                if not rec:
                    continue
                if any(re.match(r"cfg\(test\)", a) for a in attrs):
                    continue
                rec["shape"] = shape if kind == "struct" else "enum"
                if kind == "enum":
                    rec["variants"] = parse_variants(body, rel, name)
                else:
                    rec["fields"] = parse_fields(body, shape, rel, name)
                if (crate, name) in types:
                    old = types[(crate, name)]
                    same = (old["crate"], old["shape"], old.get("fields"), old.get("variants"), old["streamable_arg"]) == \
                           (rec["crate"], rec["shape"], rec.get("fields"), rec.get("variants"), rec["streamable_arg"])
                    if not same or old["file"] != rec["file"]:
                        raise TieBroken("duplicate streamable type name %s (%s, %s)" % (name, old["file"], rel))
                    # cfg(feature)/cfg(not(feature)) twins: the JSON flag is the py-bindings one
                    old["json"] = old["json"] or rec["json"]
                    continue
                rec["path"] = module_path(crate, path, repo) + "::" + name
                types[(crate, name)] = rec
    # unique ids: the plain name, or name_<crate tag> for a name used by several crates (chia-protocol keeps the plain one)
    byname = {}
    for (crate, name) in types:
        byname.setdefault(name, []).append(crate)
    out = {}
    for (crate, name), rec in types.items():
        cs = byname[name]
        uid = name if (len(cs) == 1 or crate == "chia-protocol") else "%s_%s" % (name, crate.split("-", 1)[1])
        if uid in out:
            raise TieBroken("duplicate streamable type id %s" % uid)
        rec["uid"] = uid
        out[uid] = rec
    for k, got in jimpl.items():
        if got != EXPECTED_JSON_IMPLS:
            raise TieBroken("set of hand-written `impl %s for` changed: unexpected %s, missing %s" %
                            (k, sorted(got - EXPECTED_JSON_IMPLS), sorted(EXPECTED_JSON_IMPLS - got)))
    return out, aliases, hand


def classify(attrs, kind, name, crate, rel):
    """decide from the attribute stack whether the item is Streamable; returns a record or None"""
    st_arg = None
    derives = []
    json = False
    upper = False
    for a in attrs:
        m = re.match(r"^streamable(?:\s*\(\s*(\w*)\s*\))?$", a)
        if m:
            st_arg = m.group(1) or ""
            if st_arg not in STREAMABLE_ARGS:
                raise TieBroken("%s: unknown #[streamable(%s)] on %s" % (rel, st_arg, name))
        for dm in re.finditer(r"\bderive\s*\(([^()]*)\)", a):
            derives += [norm_ws(x) for x in dm.group(1).split(",") if x.strip()]
        if re.search(r"\bpy_uppercase\b", a):
            upper = True
    is_derive = any(d in ("Streamable", "chia_streamable_macro::Streamable") for d in derives)
    if st_arg is None and not is_derive:
        return None
    if st_arg is not None:
        if kind != "struct":
            raise TieBroken("%s: #[streamable] on a non-struct %s" % (rel, name))
        # the attribute macro adds PyJsonDict only inside chia-protocol (FoundCrate::Itself), unless no_json
        json = (crate == "chia-protocol" and st_arg != "no_json")
    if any(d.split("::")[-1] == "PyJsonDict" for d in derives):
        json = True
    return {"name": name, "kind": kind, "crate": crate, "file": rel, "streamable_arg": st_arg,
            "derived": (st_arg != "no_streamable"), "json": json, "upper": upper}


def parse_fields(body, shape, rel, name):
    out = []
    if shape == "unit":
        return out
    for idx, f in enumerate(split_top(body)):
        f = strip_field_attrs(f)
        if not f:
            continue
        if shape == "named":
            m = re.match(r"^(\w+)\s*:\s*(.+)$", f, re.S)
            if not m:
                raise TieBroken("%s: cannot parse field %r of %s" % (rel, f[:40], name))
            out.append((m.group(1), norm_ws(m.group(2))))
        else:
            out.append(("field_%d" % idx, norm_ws(f)))
    return out


def parse_variants(body, rel, name):
    out = []
    for v in split_top(body):
        v = strip_field_attrs(v)
        if not v:
            continue
        m = re.match(r"^(\w+)\s*=\s*([0-9][0-9_]*)$", v)
        if not m:
            raise TieBroken("%s: enum %s variant %r has no integer literal discriminant" % (rel, name, v[:40]))
        d = int(m.group(2).replace("_", ""))
        if d > 255:
            raise TieBroken("%s: enum %s discriminant %d is not a u8" % (rel, name, d))
        out.append((m.group(1), d))
    if len(set(d for _, d in out)) != len(out):
        raise TieBroken("%s: enum %s has duplicate discriminants" % (rel, name))
    return out


# ------------------------------------------------------------------ hand-written impl bodies
def impl_bodies(repo, rel, name):
    s = blank_literals(read(repo, rel))
    body = fn_body(s, r"impl\s+Streamable\s+for\s+%s\s*\{" % name, "impl Streamable for " + name)
    res = {}
    for fn, hdr in (("update_digest", r"fn\s+update_digest\s*\(\s*&self\s*,\s*digest\s*:\s*&mut\s+Sha256\s*\)\s*\{"),
                    ("stream", r"fn\s+stream\s*\(\s*&self\s*,\s*out\s*:\s*&mut\s+Vec<u8>\s*\)\s*->\s*Result<\(\)>\s*\{"),
                    ("parse", r"fn\s+parse\s*<\s*const\s+TRUSTED\s*:\s*bool\s*>\s*\(\s*input\s*:\s*&mut\s+Cursor<&\[u8\]>\s*\)\s*->\s*Result<Self>\s*\{")):
        res[fn] = norm_ws(fn_body(body, hdr, "%s::%s" % (name, fn)))
    return res


def seq_digest_or_stream(txt, fn, what):
    """`self.F.update_digest(digest);`*  with one `update_digest(self.A.as_ref(), self.B.as_ref(), digest);`
    -> (entries, rest).  fn is 'update_digest' or 'stream'."""
    arg = "digest" if fn == "update_digest" else "out"
    q = r"" if fn == "update_digest" else r"\?"
    entries = []
    rest = txt
    while True:
        m = re.match(r"^self\.(\w+)\.%s\(%s\)%s; ?" % (fn, arg, q), rest)
        if m:
            entries.append(("F", m.group(1)))
            rest = rest[m.end():]
            continue
        m = re.match(r"^%s\( ?self\.(\w+)\.as_ref\(\), ?self\.(\w+)\.as_ref\(\), ?%s,? ?\)(%s;| ?$) ?" % (fn, arg, q), rest)
        if m:
            entries.append(("O2", m.group(1), m.group(2)))
            rest = rest[m.end():]
            continue
        return entries, rest


def seq_parse(txt, what):
    """`let V = <T as Streamable>::parse::<TRUSTED>(input)?;`* with `let (A, B) = parse::<TRUSTED, T, U>(input)?;`
    -> (entries [(kind, var(s), type(s))], rest)"""
    entries = []
    rest = txt
    while True:
        m = re.match(r"^let (\w+) = <(.+?) as Streamable>::parse::<TRUSTED>\(input\)\?; ?", rest)
        if m and "let" not in m.group(2):
            entries.append(("F", m.group(1), m.group(2)))
            rest = rest[m.end():]
            continue
        m = re.match(r"^let \((\w+), (\w+)\) = parse::<TRUSTED, (.+?), (.+?)>\(input\)\?; ?", rest)
        if m:
            entries.append(("O2", m.group(1), m.group(2), m.group(3), m.group(4)))
            rest = rest[m.end():]
            continue
        return entries, rest


def parse_ctor(rest, name, what):
    """`Ok(Self { f, g: v, ... })` (optionally `Ok(Name {...})`) -> {field: variable}"""
    m = re.match(r"^Ok\( ?(?:Self|%s) ?\{(.*)\} ?\) ?$" % name, rest)
    if not m:
        raise TieBroken("%s: parse does not end in a plain constructor" % what)
    mp = {}
    for part in split_top(m.group(1)):
        part = part.strip()
        if not part:
            continue
        mm = re.match(r"^(\w+)(?: ?: ?(\w+))?$", part)
        if not mm:
            raise TieBroken("%s: constructor field %r is not a plain variable" % (what, part))
        mp[mm.group(1)] = mm.group(2) or mm.group(1)
    return mp


GENTAIL_DIGEST = norm_ws("""
if self.version == 0 { self.transactions_generator.update_digest(digest); self.transactions_generator_ref_list.update_digest(digest); }
else if self.version == 1 { match &self.transactions_generator_buffer {
  None => { 0b10_u8.update_digest(digest); }
  Some(buf) => { 0b11_u8.update_digest(digest); (buf.len() as u32).update_digest(digest); digest.update(buf); } } }
else { %s }""")
GENTAIL_DIGEST_ELSE = {"FullBlock": 'panic!("", self.version);', "UnfinishedBlock": 'digest.update(b"");'}
GENTAIL_STREAM = norm_ws("""
if self.version == 0 { self.transactions_generator.stream(out)?; self.transactions_generator_ref_list.stream(out)?; }
else if self.version == 1 { match &self.transactions_generator_buffer {
  None => { 0b10_u8.stream(out)?; }
  Some(buf) => { 0b11_u8.stream(out)?; (buf.len() as u32).stream(out)?; out.extend_from_slice(buf); } } }
else { return Err(Error::Invalid%s); } Ok(())""")
GENTAIL_PARSE = norm_ws("""
let prefix = <u8 as Streamable>::parse::<TRUSTED>(input)?; let version = prefix >> 1; let has_generator = (prefix & 1) != 0;
if version == 0 {
  let transactions_generator = if has_generator { Some(<Program as Streamable>::parse::<TRUSTED>(input)?) } else { None };
  let transactions_generator_ref_list = <Vec<u32> as Streamable>::parse::<TRUSTED>(input)?;
  Ok(%(n)s { %(c)s transactions_generator, transactions_generator_ref_list, transactions_generator_buffer: None, version, })
} else if version == 1 {
  let transactions_generator_buffer = if has_generator { let bytes = <Bytes as Streamable>::parse::<TRUSTED>(input)?; Some(bytes.into_inner()) } else { None };
  Ok(%(n)s { %(c)s transactions_generator: None, transactions_generator_ref_list: vec![], transactions_generator_buffer, version, })
} else { Err(Error::Invalid%(n)s) }""")

POS_SHAPE_SHA = None   # filled below from the normalised pinned text


def squeeze(s):
    """normalise for shape comparison: drop all whitespace"""
    return re.sub(r"\s+", "", s)


POS_PINNED = {
    "update_digest": """self.challenge.update_digest(digest); self.pool_public_key.update_digest(digest);
 if self.version == 0 { self.pool_contract_puzzle_hash.update_digest(digest); self.plot_public_key.update_digest(digest);
   self.size.update_digest(digest); self.proof.update_digest(digest); }
 else if self.version == 1 {
   if let Some(pool_contract) = self.pool_contract_puzzle_hash { 0b11_u8.update_digest(digest); pool_contract.update_digest(digest); }
   else { 0b10_u8.update_digest(digest); }
   self.plot_public_key.update_digest(digest); self.plot_index.update_digest(digest); self.meta_group.update_digest(digest);
   self.strength.update_digest(digest);
   self.quality_string() .expect("") .update_digest(digest); }
 else { panic!("", self.version); }""",
    "stream": """self.challenge.stream(out)?; self.pool_public_key.stream(out)?;
 if self.version == 0 { self.pool_contract_puzzle_hash.stream(out)?; self.plot_public_key.stream(out)?; self.size.stream(out)?; }
 else if self.version == 1 {
   if let Some(pool_contract) = self.pool_contract_puzzle_hash { 0b11_u8.stream(out)?; pool_contract.stream(out)?; }
   else { 0b10_u8.stream(out)?; }
   self.plot_public_key.stream(out)?; self.plot_index.stream(out)?; self.meta_group.stream(out)?; self.strength.stream(out)?; }
 else { return Err(Error::InvalidPoS); }
 self.proof.stream(out)""",
    "parse": """let challenge = <Bytes32 as Streamable>::parse::<TRUSTED>(input)?;
 let pool_public_key = <Option<G1Element> as Streamable>::parse::<TRUSTED>(input)?;
 let prefix = <u8 as Streamable>::parse::<TRUSTED>(input)?; let version = prefix >> 1;
 let pool_contract_puzzle_hash = if (prefix & 1) != 0 { Some(<Bytes32 as Streamable>::parse::<TRUSTED>(input)?) } else { None };
 let plot_public_key = <G1Element as Streamable>::parse::<TRUSTED>(input)?;
 if version == 0 {
   let size = <u8 as Streamable>::parse::<TRUSTED>(input)?; let proof = <Bytes as Streamable>::parse::<TRUSTED>(input)?;
   Ok(ProofOfSpace { challenge, pool_public_key, pool_contract_puzzle_hash, plot_public_key, version,
      plot_index: 0, meta_group: 0, strength: 0, size, proof, }) }
 else if version == 1 {
   let plot_index = <u16 as Streamable>::parse::<TRUSTED>(input)?; let meta_group = <u8 as Streamable>::parse::<TRUSTED>(input)?;
   let strength = <u8 as Streamable>::parse::<TRUSTED>(input)?; let proof = <Bytes as Streamable>::parse::<TRUSTED>(input)?;
   if pool_public_key.is_some() == pool_contract_puzzle_hash.is_some() { return Err(Error::InvalidPoS); }
   Ok(ProofOfSpace { challenge, pool_public_key, pool_contract_puzzle_hash, plot_public_key, version,
      plot_index, meta_group, strength, size: 0, proof, }) }
 else { Err(Error::InvalidPoS) }""",
}
POS_FIELDS = [("challenge", "Bytes32"), ("pool_public_key", "Option<G1Element>"), ("pool_contract_puzzle_hash", "Option<Bytes32>"),
              ("plot_public_key", "G1Element"), ("version", "u8"), ("plot_index", "u16"), ("meta_group", "u8"),
              ("strength", "u8"), ("size", "u8"), ("proof", "Bytes")]
UTILS_PINNED_SHA = None


def wire_entries_handwritten(repo, rec, types):
    """wire field sequence [(names, type-desc)] of one of the five sequence-shaped hand-written impls"""
    name = rec["name"]
    what = "impl Streamable for " + name
    b = impl_bodies(repo, rec["file"], name)
    fields = dict(rec["fields"])
    dg, dg_rest = seq_digest_or_stream(b["update_digest"], "update_digest", what)
    st, st_rest = seq_digest_or_stream(b["stream"], "stream", what)
    ps, ps_rest = seq_parse(b["parse"], what)
    if name in TAIL_TYPES and ps and ps[-1][:2] == ("F", "prefix"):
        ps_rest = "let prefix = <%s as Streamable>::parse::<TRUSTED>(input)?; " % ps[-1][2] + ps_rest
        ps = ps[:-1]
    if dg != st:
        raise TieBroken("%s: update_digest and stream visit different field sequences: %r vs %r" % (what, dg, st))
    if name in OPT2_TYPES:
        if dg_rest.strip() or st_rest.strip() not in ("", "Ok(())"):
            raise TieBroken("%s: unrecognised statements in update_digest/stream: %r / %r" % (what, dg_rest[:80], st_rest[:80]))
        ctor = parse_ctor(ps_rest, name, what)
        common = ""
    else:
        if squeeze(dg_rest) != squeeze(GENTAIL_DIGEST % GENTAIL_DIGEST_ELSE[name]):
            raise TieBroken("%s: the version tail of update_digest differs from the shape mirrored by Versioned.GenTail" % what)
        if squeeze(st_rest) != squeeze(GENTAIL_STREAM % name):
            raise TieBroken("%s: the version tail of stream differs from the shape mirrored by Versioned.GenTail" % what)
        common = "".join(v + ", " for (_, v, _) in ps)
        if squeeze(ps_rest) != squeeze(GENTAIL_PARSE % {"n": name, "c": common}):
            raise TieBroken("%s: the version tail of parse differs from the shape mirrored by Versioned.GenTail" % what)
        if any(k != "F" for (k, *_) in ps):
            raise TieBroken("%s: unexpected two-option entry" % what)
        ctor = {v: v for (_, v, _) in ps}
    # parse must build the same sequence with the declared field types
    entries = []
    if len(ps) != len(dg):
        raise TieBroken("%s: parse reads %d entries, stream writes %d" % (what, len(ps), len(dg)))
    inv = {v: k for k, v in ctor.items()}
    for pe, se in zip(ps, dg):
        if pe[0] != se[0]:
            raise TieBroken("%s: parse and stream disagree on entry kinds" % what)
        if pe[0] == "F":
            fld = inv.get(pe[1])
            if fld != se[1]:
                raise TieBroken("%s: parse stores entry %r into field %r but stream writes %r there" % (what, pe[1], fld, se[1]))
            if squeeze(fields.get(fld, "?")) != squeeze(pe[2]):
                raise TieBroken("%s: field %s declared %s but parsed as %s" % (what, fld, fields.get(fld), pe[2]))
            entries.append((fld, parse_type(pe[2], what)))
        else:
            fa, fb = inv.get(pe[1]), inv.get(pe[2])
            if (fa, fb) != (se[1], se[2]):
                raise TieBroken("%s: two-option entry fields differ between parse and stream" % what)
            for fld, ty in ((fa, pe[3]), (fb, pe[4])):
                if squeeze(fields.get(fld, "?")) != squeeze("Option<%s>" % ty):
                    raise TieBroken("%s: field %s declared %s but parsed as Option<%s>" % (what, fld, fields.get(fld), ty))
            entries.append((fa + "," + fb, ("Opt2", parse_type(pe[3], what), parse_type(pe[4], what))))
    if name in TAIL_TYPES:
        decl = [(f, squeeze(t)) for f, t in rec["fields"][-4:]]
        if decl != [("transactions_generator", "Option<Program>"), ("transactions_generator_ref_list", "Vec<u32>"),
                    ("transactions_generator_buffer", "Option<Vec<u8>>"), ("version", "u8")]:
            raise TieBroken("%s: the last four struct fields are not the generator tail" % what)
        entries.append((",".join(TAIL_FIELDS), ("GenTail", name == "FullBlock")))
        covered = [f for e, _ in entries for f in e.split(",")]
    else:
        covered = [f for e, _ in entries for f in e.split(",")]
    if sorted(covered) != sorted(f for f, _ in rec["fields"]):
        raise TieBroken("%s: the impl does not cover exactly the struct's fields" % what)
    return entries


def check_pos(repo, rec):
    what = "impl Streamable for ProofOfSpace"
    if [(f, squeeze(t)) for f, t in rec["fields"]] != [(f, squeeze(t)) for f, t in POS_FIELDS]:
        raise TieBroken("ProofOfSpace: struct fields differ from the ones mirrored by Versioned.PoS")
    b = impl_bodies(repo, rec["file"], "ProofOfSpace")
    for fn in ("update_digest", "stream", "parse"):
        if squeeze(b[fn]) != squeeze(POS_PINNED[fn]):
            raise TieBroken("%s::%s differs from the shape mirrored by Versioned.PoS" % (what, fn))


def check_utils(repo):
    s = squeeze(blank_literals(read(repo, "crates/chia-protocol/src/utils.rs")))
    want = squeeze("""
pub fn parse<const TRUSTED: bool, T: Streamable, U: Streamable>( input: &mut Cursor<&[u8]>, ) -> Result<(Option<T>, Option<U>)> {
    let index = <u8 as Streamable>::parse::<TRUSTED>(input)?;
    Ok(match index {
        0 => (None, None),
        1 => (Some(T::parse::<TRUSTED>(input)?), None),
        2 => (None, Some(U::parse::<TRUSTED>(input)?)),
        3 => ( Some(T::parse::<TRUSTED>(input)?), Some(U::parse::<TRUSTED>(input)?), ),
        _ => { return Err(Error::InvalidOptional); }
    })
}""")
    if want not in s:
        raise TieBroken("chia-protocol/src/utils.rs: two-option parse helper differs from the shape mirrored by Opt2")
    for fn, arg, q in (("update_digest", "digest", ""), ("stream", "out", "?")):
        arms = []
        for idx, (a, b) in enumerate(((0, 0), (1, 0), (0, 1), (1, 1))):
            pat = "(%s,%s)=>{Streamable::%s(&%d_u8,%s)%s;" % ("Some(first)" if a else "None", "Some(second)" if b else "None", fn, idx, arg, q)
            if a:
                pat += "first.%s(%s)%s;" % (fn, arg, q)
            if b:
                pat += "second.%s(%s)%s;" % (fn, arg, q)
            pat += "}"
            arms.append(pat)
        if "match(first,second){" + "".join(arms) + "}" not in s:
            raise TieBroken("chia-protocol/src/utils.rs: two-option %s helper differs from the shape mirrored by Opt2" % fn)


def check_traits(repo):
    s = blank_literals(read(repo, TRAITS_FILE))
    s = drop_test_modules(s)
    got = set(norm_ws(m.group(2)) for m in re.finditer(r"\bimpl\s*(<[^{]*?>)?\s*Streamable\s+for\s+([^{]+?)\s*(?:where[^{]*)?\{", s))
    if got != EXPECTED_TRAITS:
        raise TieBroken("chia-traits: set of generic Streamable impls changed: %s" % sorted(got ^ EXPECTED_TRAITS))
    prims = re.findall(r"streamable_primitive!\((\w+)\);", s)
    if prims != EXPECTED_PRIMS:
        raise TieBroken("chia-traits: streamable_primitive! list changed: %r" % prims)
    m = re.search(r"let limit = ([^;]+);", s)
    if not m or squeeze(m.group(1)) != "2*1024*1024/mem::size_of::<T>()":
        raise TieBroken("chia-traits: Vec pre-allocation limit changed")
    return 2 * 1024 * 1024


# ------------------------------------------------------------------ assembling
def build(repo):
    types, aliases, hand = parse_items(repo)
    clash = [n for n, _, _, _ in LEAF_TOP if n in types]
    if clash:
        raise TieBroken("a streamable struct is named like a leaf type: %r" % clash)
    if hand != EXPECTED_HANDWRITTEN:
        raise TieBroken("set of hand-written `impl Streamable for` changed: unexpected %s, missing %s" %
                        (sorted(hand - EXPECTED_HANDWRITTEN), sorted(EXPECTED_HANDWRITTEN - hand)))
    vec_limit = check_traits(repo)
    check_utils(repo)
    no_st = sorted(r["name"] for n, r in types.items() if not r["derived"])
    if no_st != sorted(OPT2_TYPES + TAIL_TYPES + ["ProofOfSpace"]):
        raise TieBroken("set of #[streamable(no_streamable)] types changed: %r" % no_st)

    def resolve(d, what, seen=(), crate=None):
        k = d[0]
        if k == "Ref":
            n = d[1]
            same = [u for u, r in types.items() if r["name"] == n and r["crate"] == crate]
            anyc = [u for u, r in types.items() if r["name"] == n]
            if same:
                return ("Ref", same[0])
            if len(anyc) == 1 or (anyc and n in types):
                return ("Ref", n if n in types else anyc[0])
            if n in aliases:
                if n in seen:
                    raise TieBroken("%s: alias cycle at %s" % (what, n))
                return resolve(parse_type(aliases[n], what), what, seen + (n,), crate)
            raise TieBroken("%s: field type %s is neither a known leaf nor a streamable type" % (what, n))
        if k in ("Opt", "Vec"):
            return (k, resolve(d[1], what, seen, crate))
        if k == "Arr":
            return (k, d[1], resolve(d[2], what, seen, crate))
        if k == "Tup":
            return (k, [resolve(x, what, seen, crate) for x in d[1]])
        if k == "Opt2":
            return (k, resolve(d[1], what, seen, crate), resolve(d[2], what, seen, crate))
        return d

    for n, r in types.items():
        what = "%s (%s)" % (n, r["file"])
        if r["kind"] == "enum":
            r["wire"] = None
            continue
        r["ftypes"] = [(f, resolve(parse_type(t, what), what, (), r["crate"])) for f, t in r["fields"]]
        if r["derived"]:
            r["wire"] = list(r["ftypes"])
        elif r["name"] == "ProofOfSpace":
            check_pos(repo, r)
            r["wire"] = None
        else:
            r["wire"] = [(f, resolve(t, what, (), r["crate"])) for f, t in wire_entries_handwritten(repo, r, types)]
        if r["json"] and r["shape"] == "tuple" and len(r["fields"]) != 1:
            raise TieBroken("%s: PyJsonDict on a tuple struct with %d fields" % (what, len(r["fields"])))
        if r["json"] and r["shape"] == "unit":
            raise TieBroken("%s: PyJsonDict on a unit struct" % what)

    # dependency order (deterministic)
    order, state = [], {}

    def visit(n, stack=()):
        if state.get(n) == 2:
            return
        if state.get(n) == 1:
            raise TieBroken("recursive streamable type through %s" % n)
        state[n] = 1
        r = types[n]
        deps = []
        if r["kind"] == "struct":
            for _, t in (r["wire"] if r["wire"] is not None else r["ftypes"]):
                deps += type_refs(t)
            for _, t in r["ftypes"]:
                deps += type_refs(t)
        for d in sorted(set(deps)):
            visit(d)
        state[n] = 2
        order.append(n)

    for n in sorted(types):
        visit(n)
    return types, order, vec_limit


def up(name, upper):
    return name.upper() if upper else name


def render_coq(types, order, vec_limit):
    out = [HEADER % "#[streamable]/derive(Streamable) items of chia-protocol, chia-consensus, chia-datalayer, chia-bls"]
    out.append("From Coq Require Import String.\nFrom ChiaV.Base Require Import Bytes.\nFrom ChiaV.Stream Require Import Universe.\nLocal Open Scope string_scope.\n")
    out.append("Definition vec_prealloc_limit_bytes : N := %d%%N.\n" % vec_limit)
    for n in order:
        r = types[n]
        if r["kind"] == "enum":
            out.append("Definition T_%s : ty := Enum [%s]%%N.   (* %s: %s *)" % (
                n, "; ".join(str(d) for _, d in r["variants"]), r["file"], ", ".join("%s=%d" % tuple(v) for v in r["variants"])))
        elif n == "ProofOfSpace":
            out.append("Definition T_%s : ty := PoS.   (* %s: hand-written impl, mirrored in Stream/Versioned.v *)" % (n, r["file"]))
        else:
            ents = "; ".join('("%s", %s)' % (",".join(up(x, r["upper"]) for x in f.split(",")), coq_ty(t)) for f, t in r["wire"])
            kind = "derived" if r["derived"] else "hand-written impl, field sequence parsed from its three method bodies"
            shape = {"named": "SNamed", "tuple": "STuple", "unit": "SNamed"}[r["shape"]]
            out.append("Definition T_%s : ty := Struct \"%s\" %s [%s].   (* %s: %s *)" % (n, n, shape, ents, r["file"], kind))
    out.append("")
    rows = ['("%s", %s)' % (n, coq_ty(d)) for n, d, _, _ in LEAF_TOP] + ['("%s", T_%s)' % (n, n) for n in order]
    out.append("Definition stream_types : list (string * ty) :=\n  [ %s ]." % ";\n    ".join(rows))
    out.append("")
    out.append("(* Rust struct field names in declaration order (arguments of `new`, JSON keys) *)")
    out.append("Definition rust_fields : list (string * list string) :=\n  [ %s ]." % ";\n    ".join(
        '("%s", [%s])' % (n, "; ".join('"%s"' % up(f, types[n]["upper"]) for f, _ in types[n].get("fields", []))) for n in order if types[n]["kind"] == "struct"))
    out.append("")
    out.append("(* types that get ToJsonDict/FromJsonDict (PyJsonDict) *)")
    out.append("Definition json_types : list string :=\n  [ %s ]." % "; ".join(['"%s"' % n for n, _, _, j in LEAF_TOP if j] + ['"%s"' % n for n in order if types[n]["json"]]))
    out.append("")
    out.append("Definition handwritten_impls : list string :=\n  [ %s ]." % "; ".join('"%s: %s"' % x for x in sorted(EXPECTED_HANDWRITTEN)))
    return "\n".join(out) + "\n"


def render_rust(types, order):
    paths = {n: types[n]["path"] for n in order}
    out = ["// GENERATED by /verif/translator/gen_streamtypes.py from /repo — do not edit.",
           "// One macro invocation per Streamable type; the macros live in vh_wire.rs.", ""]
    for n in order:
        r = types[n]
        p = r["path"]
        if r["kind"] == "enum":
            out.append("wire_enum!(%s; %s);" % (p, ", ".join("%s = %d" % tuple(v) for v in r["variants"])))
        elif r["shape"] == "tuple":
            out.append("wire_tuple_struct!(%s; %s);" % (p, ", ".join(rust_ty(t, paths) for _, t in r["ftypes"])))
        else:
            ctor = "new" if r["streamable_arg"] is not None else "lit"
            out.append("wire_struct!(%s; %s; %s);" % (p, ctor, ", ".join("%s: %s" % (f, rust_ty(t, paths)) for f, t in r["ftypes"])))
    out.append("")
    out.append("wire_table! {")
    for n, _, rp, j in LEAF_TOP:
        out.append('    "%s" => %s, %s;' % (n, rp, "json" if j else "nojson"))
    for n in order:
        out.append('    "%s" => %s, %s;' % (n, types[n]["path"], "json" if types[n]["json"] else "nojson"))
    out.append("}")
    return "\n".join(out) + "\n"


SNAPSHOT = "/verif/driver/wire_types_snapshot.json"   # last good type description (committed; see notes/wire.md)
RUST_TABLE = "/verif/harness/src/gen/wire_types_gen.rs"
COQ_TABLE = "/verif/coq/Gen/StreamTypes.v"


def snapshot_dump(types, order, vec_limit):
    import json
    return json.dumps({"types": types, "order": order, "vec_limit": vec_limit}, indent=0, sort_keys=True) + "\n"


def snapshot_load():
    """(types, order, vec_limit) of the committed snapshot; descriptors come back as lists instead of tuples,
    which every consumer (index / iteration only) accepts"""
    import json
    if not os.path.exists(SNAPSHOT):
        raise TieBroken("type snapshot missing: " + SNAPSHOT)
    d = json.load(open(SNAPSHOT))
    return d["types"], d["order"], d["vec_limit"]


def build_or_snapshot(repo):
    """(types, order, vec_limit, broken_message_or_None): the current source if it translates, otherwise the
    last good snapshot so that the checks can still SEARCH for a failing input with the last good description"""
    try:
        t, o, v = build(repo)
        return t, o, v, None
    except TieBroken as e:
        t, o, v = snapshot_load()
        return t, o, v, str(e)


def _write_if_missing(path, content):
    if not os.path.exists(path):
        os.makedirs(os.path.dirname(path), exist_ok=True)
        with open(path, "w") as f:
            f.write(content)


def generate(repo):
    try:
        types, order, vec_limit = build(repo)
    except TieBroken:
        # the tie is broken (reported by the caller).  Keep the last good generated tables in place; if they
        # do not exist at all (fresh checkout) re-create them from the committed snapshot so that the model
        # and the harness of the last good description can still be built and used to search for an input
        try:
            t, o, v = snapshot_load()
            _write_if_missing(COQ_TABLE, render_coq(t, o, v))
            _write_if_missing(RUST_TABLE, render_rust(t, o))
        except Exception:
            pass
        raise
    rust = render_rust(types, order)
    dst = RUST_TABLE
    try:
        os.makedirs(os.path.dirname(dst), exist_ok=True)
        old = open(dst).read() if os.path.exists(dst) else None
        if old != rust:
            with open(dst, "w") as f:
                f.write(rust)
    except OSError as e:
        raise TieBroken("cannot write the generated Rust dispatch table: %r" % (e,))
    return {"StreamTypes.v": render_coq(types, order, vec_limit)}


if __name__ == "__main__":
    import sys
    if len(sys.argv) > 1 and sys.argv[1] == "write-snapshot":
        t, o, v = build("/repo")
        open(SNAPSHOT, "w").write(snapshot_dump(t, o, v))
        print("snapshot written:", len(o), "types")
        sys.exit(0)
    t, o, _ = build(sys.argv[1] if len(sys.argv) > 1 else "/repo")
    for n in o:
        r = t[n]
        print(n, r["crate"], r["kind"], "json" if r["json"] else "", "" if r["derived"] else "HAND")
