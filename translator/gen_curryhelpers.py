"""Gen/CurryHelpers.v — the set of hash-only currying helpers (`pub fn curry_tree_hash`) in the repository.

C17's last clause ("the hash of a curried program computed from hashes alone equals the tree hash of
the actual curried program") is checked per helper by the implementation-level oracle op
`thash.ohelper` (harness/src/bin/vh_thash.rs) on cases made by driver/props/C17.py.  This module pins
the SET of helpers and their parameter lists: a new helper, a removed one or a changed signature is a
broken tie until an oracle case exists for it (fail closed).  `scan(repo)` is also used by the driver
to enumerate the helpers it must cover."""
import os, re
from tcommon import *

# impl type -> normalised parameter list, as covered by thash.ohelper
KNOWN = {
    "StandardArgs": "synthetic_key: PublicKey",
    "DidArgs": "inner_puzzle: TreeHash, recovery_list_hash: Option<Bytes32>, num_verifications_required: u64, "
               "singleton_struct: SingletonStruct, metadata: TreeHash",
    "SingletonArgs": "launcher_id: Bytes32, inner_puzzle: TreeHash",
    "NftIntermediateLauncherArgs": "mint_number: usize, mint_total: usize",
    "NftStateLayerArgs": "metadata: TreeHash, inner_puzzle: TreeHash",
    "NftOwnershipLayerArgs": "current_owner: Option<Bytes32>, transfer_program: TreeHash, inner_puzzle: TreeHash",
    "NftRoyaltyTransferPuzzleArgs": "launcher_id: Bytes32, royalty_puzzle_hash: Bytes32, royalty_ten_thousandths: u16",
    "CatArgs": "asset_id: Bytes32, inner_puzzle: TreeHash",
    "EverythingWithSignatureTailArgs": "public_key: PublicKey",
    "GenesisByCoinIdTailArgs": "genesis_coin_id: Bytes32",
}


def scan(repo):
    """every `pub fn curry_tree_hash(` under crates/ (outside clvm-utils, which defines the generic function)
    -> {impl type: (relative file, normalised parameter list)}"""
    found = {}
    root = os.path.join(repo, "crates")
    for d, _, files in sorted(os.walk(root)):
        if "/clvm-utils" in d or "/target" in d:
            continue
        for f in sorted(files):
            if not f.endswith(".rs"):
                continue
            rel = os.path.relpath(os.path.join(d, f), repo)
            src = strip_comments(read(repo, rel))
            for m in re.finditer(r"pub fn curry_tree_hash\s*\(", src):
                close = src.find(")", m.end())
                params = norm_ws(src[m.end():close]).rstrip(",").strip()
                params = re.sub(r",\s*$", "", params)
                tail = norm_ws(src[close:close + 40])
                if not tail.startswith(") -> TreeHash {"):
                    raise TieBroken("%s: curry_tree_hash with an unexpected return type: %r" % (rel, tail))
                impls = list(re.finditer(r"(?m)^impl(?:<[^>{]*>)?\s+([A-Za-z0-9_]+)", src[:m.start()]))
                if not impls:
                    raise TieBroken("%s: curry_tree_hash outside an impl block" % rel)
                name = impls[-1].group(1)
                if name in found:
                    raise TieBroken("two curry_tree_hash helpers for %s" % name)
                found[name] = (rel, params)
    return found


def generate(repo):
    found = scan(repo)
    for name, (rel, params) in sorted(found.items()):
        if name not in KNOWN:
            raise TieBroken("new helper %s::curry_tree_hash(%s) in %s has no oracle case (thash.ohelper)" % (name, params, rel))
        if params != KNOWN[name]:
            raise TieBroken("%s::curry_tree_hash: parameter list changed: %r (oracle case written for %r)" % (name, params, KNOWN[name]))
    for name in KNOWN:
        if name not in found:
            raise TieBroken("helper %s::curry_tree_hash disappeared (oracle case is stale)" % name)
    out = HEADER % "every `pub fn curry_tree_hash` under crates/ (set and signatures; behaviour is checked by thash.ohelper)"
    out += "From Coq Require Import String List.\nImport ListNotations.\nOpen Scope string_scope.\n\n"
    out += "Definition curry_helpers : list (string * string) :=\n  [ "
    out += ";\n    ".join('("%s", "%s")' % (n, found[n][1]) for n in sorted(found)) + " ].\n"
    return {"CurryHelpers.v": out}
