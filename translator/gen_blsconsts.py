"""Gen/BlsConsts.v — constants of the key-derivation / BLS-cache code taken from the Rust source:
   GROUP_ORDER_BYTES (derive_synthetic.rs), the unhardened wallet derivation path prefix
   (derive_keys.rs), the two hash-to-curve domain separation tags (signature.rs, public_key.rs),
   the default BlsCache capacity (bls_cache.rs) and the shape of BlsCacheData::put
   (evict-before-lookup).  Fails closed on any unrecognised shape."""
import re
from tcommon import TieBroken, read, strip_comments, norm_ws, fn_body, rust_int, HEADER


def generate(repo):
    out = HEADER % "chia-puzzle-types/src/derive_synthetic.rs, chia-bls/src/{derive_keys,signature,public_key,bls_cache}.rs"
    out += "From Coq Require Import String.\nFrom ChiaV.Base Require Import Bytes.\nOpen Scope N_scope.\n\n"

    src = strip_comments(read(repo, "crates/chia-puzzle-types/src/derive_synthetic.rs"))
    m = re.search(r'const GROUP_ORDER_BYTES: \[u8; 32\] =\s*hex!\("([0-9a-fA-F]{64})"\);', src)
    if not m:
        raise TieBroken("GROUP_ORDER_BYTES: shape changed")
    out += "(* derive_synthetic.rs GROUP_ORDER_BYTES, as the big-endian number *)\n"
    out += "Definition group_order_bytes_value : N := 0x%s.\n\n" % m.group(1).lower()
    body = norm_ws(fn_body(src, r"pub fn mod_by_group_order\(bytes: \[u8; 32\]\) -> \[u8; 32\] \{", "mod_by_group_order"))
    want = ("let value = BigInt::from_signed_bytes_be(bytes.as_slice()); "
            "let group_order = BigInt::from_signed_bytes_be(&GROUP_ORDER_BYTES); "
            "let modulo = ((value % &group_order) + &group_order) % &group_order; "
            "let mut byte_vec = modulo.to_bytes_be().1; "
            "if byte_vec.len() < 32 { let pad = vec![0; 32 - byte_vec.len()]; byte_vec.splice(0..0, pad); } "
            "byte_vec.try_into().unwrap()")
    if body != want:
        raise TieBroken("mod_by_group_order: body changed: %r" % body[:300])
    body = norm_ws(fn_body(src, r"fn synthetic_offset\(public_key: &PublicKey, hidden_puzzle_hash: &\[u8; 32\]\) -> SecretKey \{", "synthetic_offset"))
    want = ("let mut hasher = Sha256::new(); hasher.update(public_key.to_bytes()); hasher.update(hidden_puzzle_hash); "
            "let bytes: [u8; 32] = hasher.finalize(); SecretKey::from_bytes(&mod_by_group_order(bytes)).unwrap()")
    if body != want:
        raise TieBroken("synthetic_offset: body changed: %r" % body[:300])

    src = strip_comments(read(repo, "crates/chia-bls/src/derive_keys.rs"))
    m = re.search(r"pub fn master_to_wallet_unhardened<Key: DerivableKey>\(key: &Key, idx: u32\) -> Key \{\s*"
                  r"derive_path_unhardened\(key, &\[([0-9_a-z, ]+), idx\]\)\s*\}", src)
    if not m:
        raise TieBroken("master_to_wallet_unhardened: shape changed")
    path = [rust_int(x) for x in m.group(1).split(",")]
    m2 = re.search(r"pub fn master_to_wallet_unhardened_intermediate<Key: DerivableKey>\(key: &Key\) -> Key \{\s*"
                   r"derive_path_unhardened\(key, &\[([0-9_a-z, ]+)\]\)\s*\}", src)
    if not m2 or [rust_int(x) for x in m2.group(1).split(",")] != path:
        raise TieBroken("master_to_wallet_unhardened_intermediate: shape changed")
    body = norm_ws(fn_body(src, r"fn derive_path_unhardened<Key: DerivableKey>\(key: &Key, path: &\[u32\]\) -> Key \{", "derive_path_unhardened"))
    want = ("let mut derived = key.derive_unhardened(path[0]); for idx in &path[1..] { derived = derived.derive_unhardened(*idx); } derived")
    if body != want:
        raise TieBroken("derive_path_unhardened: body changed: %r" % body[:300])
    out += "(* derive_keys.rs: master_to_wallet_unhardened(key, idx) = path [%s; idx] *)\n" % "; ".join(map(str, path))
    out += "Definition wallet_unhardened_prefix : list N := [%s].\n\n" % "; ".join(map(str, path))

    src = read(repo, "crates/chia-bls/src/signature.rs")
    m = re.search(r'pub\(crate\) const DST: &\[u8\] = b"([A-Za-z0-9_:\-]+)";', src)
    if not m:
        raise TieBroken("signature.rs DST: shape changed")
    out += 'Definition dst_g2 : bytes := str "%s".\n' % m.group(1)
    src = read(repo, "crates/chia-bls/src/public_key.rs")
    m = re.search(r'pub\(crate\) const DST: &\[u8\] = b"([A-Za-z0-9_:\-]+)";', src)
    if not m:
        raise TieBroken("public_key.rs DST: shape changed")
    out += 'Definition dst_g1 : bytes := str "%s".\n\n' % m.group(1)

    src = strip_comments(read(repo, "crates/chia-bls/src/bls_cache.rs"))
    m = re.search(r"Self::new\(NonZeroUsize::new\(([0-9_]+)\)\.unwrap\(\)\)", src)
    if not m:
        raise TieBroken("BlsCache::default capacity: shape changed")
    out += "Definition default_cache_capacity : N := %d.\n\n" % rust_int(m.group(1))
    body = norm_ws(fn_body(src, r"pub fn put\(&mut self, hash: \[u8; 32\], pairing: GTElement\) \{", "BlsCacheData::put"))
    want = ("if self.items.len() == self.capacity.get() { if let Some((oldest_key, _)) = self.items.pop_front() { "
            "self.items.remove(&oldest_key); } } self.items.insert(hash, pairing);")
    if body != want:
        raise TieBroken("BlsCacheData::put: body changed (the model Bls/Cache.v cput mirrors it): %r" % body[:300])
    out += "(* BlsCacheData::put has the recognised shape: evict the oldest at capacity, then insert *)\n"
    out += "Definition put_evicts_before_lookup : bool := true.\n"
    return {"BlsConsts.v": out}
