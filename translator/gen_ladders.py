"""Gen/Ladders.v — the three hand-written integer ladders, as Gallina if-chains.

  chia-protocol/src/coin.rs                        Coin::coin_id  (amount bytes fed to the hash)
  chia-consensus/src/make_aggsig_final_message.rs  u64_to_bytes
  chia-consensus/src/solution_generator.rs         clvm_bytes_len

Shape check: after extraction the function body is re-rendered from the extracted numbers
and compared (whitespace-normalised) with the source; any other shape is a broken tie."""
import re
from tcommon import *

LIT = r"(0x[0-9a-fA-F_]+(?:_?u64)?|[0-9][0-9_]*(?:_?u64)?)"


def _start_ladder(body, var, what):
    """parse   if VAR >= LIT { <neg arm> } else { let start = match VAR { arms }; <tail> }"""
    b = norm_ws(body)
    m = re.search(r"if %s >= %s \{" % (re.escape(var), LIT), b)
    if not m:
        raise TieBroken("%s: top-level sign test not found" % what)
    top = rust_int(m.group(1))
    mm = re.search(r"let start = match %s \{(.*?)\};" % re.escape(var), b)
    if not mm:
        raise TieBroken("%s: `let start = match` not found" % what)
    arms_txt = mm.group(1).strip()
    arms = []
    rest = arms_txt
    arm_re = re.compile(r"^n if n (>=|>) %s => ([0-9]+),\s*" % LIT)
    while True:
        a = arm_re.match(rest)
        if not a:
            break
        arms.append((a.group(1), rust_int(a.group(2)), int(a.group(3))))
        rest = rest[a.end():]
    d = re.match(r"^_ => ([0-9]+),?\s*$", rest)
    if not d:
        raise TieBroken("%s: unexpected match arm text: %r" % (what, rest[:60]))
    default = int(d.group(1))
    return top, arms, default


def _render_start(top, arms, default, name, src):
    out = []
    out.append("Definition %s (v : N) : bytes :=" % name)
    out.append("  if %d <=? v then x00 :: n2be 8 v" % top)
    out.append("  else skipn (")
    for (op, thr, k) in arms:
        cmp_ = "%d <=? v" % thr if op == ">=" else "%d <? v" % thr
        out.append("    if %s then %d%%nat else" % (cmp_, k))
    out.append("    %d%%nat) (n2be 8 v)." % default)
    return "\n".join(out) + "\n"


def generate(repo):
    out = HEADER % "coin.rs, make_aggsig_final_message.rs, solution_generator.rs"
    out += "From ChiaV.Base Require Import Bytes.\nOpen Scope N_scope.\n\n"

    # --- Coin::coin_id ---
    src = strip_comments(read(repo, "crates/chia-protocol/src/coin.rs"))
    body = fn_body(src, r"pub fn coin_id\(&self\) -> Bytes32 \{", "Coin::coin_id")
    nb = norm_ws(body)
    top, arms, default = _start_ladder(body, "self.amount", "Coin::coin_id")
    # the surrounding hashing code must be exactly: parent, puzzle_hash, then the amount bytes
    expect_pre = "let mut hasher = Sha256::new(); hasher.update(self.parent_coin_info); hasher.update(self.puzzle_hash); let amount_bytes = self.amount.to_be_bytes();"
    if not nb.startswith(expect_pre):
        raise TieBroken("Coin::coin_id: hashing preamble changed: %r" % nb[:200])
    if "hasher.update([0_u8]); hasher.update(amount_bytes);" not in nb:
        raise TieBroken("Coin::coin_id: sign-byte arm changed")
    if "hasher.update(&amount_bytes[start..]);" not in nb:
        raise TieBroken("Coin::coin_id: slice arm changed")
    if not nb.endswith("let coin_id: [u8; 32] = hasher.finalize().as_slice().try_into().unwrap(); Bytes32::new(coin_id)"):
        raise TieBroken("Coin::coin_id: finalisation changed")
    # no other statements: count of `hasher.update`
    if nb.count("hasher.update(") != 5:
        raise TieBroken("Coin::coin_id: unexpected number of hasher.update calls")
    out += "(* bytes of the amount as hashed by Coin::coin_id (after parent and puzzle hash) *)\n"
    out += _render_start(top, arms, default, "coin_amount_bytes", "coin.rs") + "\n"

    # --- u64_to_bytes ---
    src = strip_comments(read(repo, "crates/chia-consensus/src/make_aggsig_final_message.rs"))
    body = fn_body(src, r"pub fn u64_to_bytes\(val: u64\) -> Vec<u8> \{", "u64_to_bytes")
    nb = norm_ws(body)
    top, arms, default = _start_ladder(body, "val", "u64_to_bytes")
    if not nb.startswith("let amount_bytes: [u8; 8] = val.to_be_bytes();"):
        raise TieBroken("u64_to_bytes: preamble changed")
    if "let mut ret = Vec::<u8>::new(); ret.push(0_u8); ret.extend(amount_bytes); ret }" not in nb:
        raise TieBroken("u64_to_bytes: sign-byte arm changed")
    if not nb.endswith("amount_bytes[start..].to_vec() }"):
        raise TieBroken("u64_to_bytes: slice arm changed")
    out += _render_start(top, arms, default, "u64_to_bytes", "make_aggsig_final_message.rs") + "\n"

    # --- clvm_bytes_len ---
    src = strip_comments(read(repo, "crates/chia-consensus/src/solution_generator.rs"))
    body = fn_body(src, r"fn clvm_bytes_len\(val: u64\) -> usize \{", "clvm_bytes_len")
    nb = norm_ws(body)
    arms = []
    rest = nb
    first = True
    while True:
        m = re.match(r"^(?:else )?if val < %s \{ ([0-9]+) \}\s*" % LIT, rest)
        if not m:
            break
        arms.append((rust_int(m.group(1)), int(m.group(2))))
        rest = rest[m.end():]
    d = re.match(r"^else \{ ([0-9]+) \}$", rest)
    if not d or not arms:
        raise TieBroken("clvm_bytes_len: unexpected shape: %r" % rest[:80])
    out += "Definition clvm_bytes_len (v : N) : N :=\n"
    for thr, k in arms:
        out += "  if v <? %d then %d else\n" % (thr, k)
    out += "  %s.\n\n" % d.group(1)

    # calculate_generator_length constants
    body = fn_body(src, r"pub fn calculate_generator_length<I>\(spends: I\) -> usize\s+where\s+I: AsRef<\[CoinSpend\]>,\s*\{", "calculate_generator_length")
    nb = norm_ws(body)
    m = re.match(r"^let mut size: usize = ([0-9]+); for s in spends.as_ref\(\) \{ let puzzle = s.puzzle_reveal.as_ref\(\); let solution = s.solution.as_ref\(\); size \+= ([0-9]+) \+ puzzle.len\(\) \+ clvm_bytes_len\(s.coin.amount\) \+ solution.len\(\); \} size$", nb)
    if not m:
        raise TieBroken("calculate_generator_length: unexpected shape: %r" % nb[:200])
    out += "Definition genlen_base : N := %s.\nDefinition genlen_per_spend : N := %s.\n" % (m.group(1), m.group(2))
    return {"Ladders.v": out}
